"""C02 — every emitted proto is well-formed; bad programs are refused (converter plumbing).

  Converter._translate_return_stmt (+ nested ret, check_num_outputs)
        after translation the function outputs have pairwise distinct names and none of them is a graph
        input (copies are inserted), for any number <= 3 of returned expressions and any aliasing between them
  Converter._translate_stmt
        returns normally only for the supported statement kinds; a return statement inside a control-flow
        block (index_of_stmt is None) and every unsupported statement raise with a source-positioned message
  _generate_unique_name / subgraph outputs produced inside the subgraph: contracts/c01_converter.py
"""
from __future__ import annotations

import ast

import z3

from pyvc.harness import Scenario
from pyvc.interp import Interp, PyRaise
from pyvc.values import SObj, Opaque, Obj, term
from theories import astmodel as A
from . import convmodel as CM
from .c01_converter import FnStub, world

REL = "onnxscript/_internal/converter.py"
CL_OUT = "C02: 'output names are distinct and no graph input is returned directly'"
CL_REF = "C02: 'Programs outside the subset raise an exception when the decorator runs, carrying the source position; they never yield a malformed proto'"


def s_return(ctx):
    import onnx_ir as ir
    from onnxscript._internal import values
    I, self, top, state = world(ctx, set(), set())
    C = CM._conv_cls()
    n = 1 + ctx.choose(3, "number of returned expressions")
    # candidate values an expression may evaluate to: graph inputs, an earlier local value, or a fresh value
    inputs = []
    for j in range(2):
        v = SObj(ir.Value, f"in{j}")
        v.fields.update(name=f"in{j}", ghost_node=None, ghost_var=None)
        inputs.append(v)
    local = I.call(I.getattr(self, "_emit"), [["loc"], "Op", []])
    # a value computed in an ENCLOSING function (the function under translation is a nested @graph function): not an input of any
    # graph, and not produced by a node of this graph
    outer = SObj(ir.Value, "outer_val")
    outer.fields.update(name="outer_val", ghost_node=None, ghost_var=None)

    def is_input(v):
        return any(v is x for x in inputs)
    for v in inputs + [local, outer]:
        def igi(v=v):
            raise AssertionError
        I.models[igi] = lambda interp, v=v: is_input(v)
        v.fields["is_graph_input"] = igi
        I.call(I.getattr(self, "_bind"), [v.fields["name"], I.call(values.SymbolValue, [v, CM.real_info()])])
    # `y = x; x = x + 1`: the Python name of an input may since have been rebound to a computed value, while another
    # Python variable still denotes the input value itself
    if ctx.choose(2, "the python name of input 0 was rebound to a computed value") == 1:
        I.call(I.getattr(self, "_bind"), ["in0", I.call(values.SymbolValue, [local, CM.real_info()])])
        I.call(I.getattr(self, "_bind"), ["alias_of_in0", I.call(values.SymbolValue, [inputs[0], CM.real_info()])])
    choices = []

    def m_translate_expr(interp, slf, node, target=None):
        k = ctx.choose(5, "returned expression denotes")
        choices.append(k)
        if k < 2:
            return inputs[k]
        if k == 2:
            return local
        if k == 4:
            return outer
        name = interp.call(interp.getattr(slf, "_generate_unique_name"), [target or "tmp"])
        v = interp.call(interp.getattr(slf, "_emit"), [[name], "Expr", []])

        def igi():
            raise AssertionError
        interp.models[igi] = lambda i2: False
        v.fields["is_graph_input"] = igi
        return v
    I.models[C._translate_expr] = m_translate_expr
    orig_emit = I.models[C._emit]

    def m_emit(interp, slf, outputs, callee, inputs_, attrs=None):
        r = orig_emit(interp, slf, outputs, callee, inputs_, attrs)
        for v in (r if isinstance(r, list) else [r]):
            def igi():
                raise AssertionError
            interp.models[igi] = lambda i2: False
            v.fields.setdefault("is_graph_input", igi)
        return r
    I.models[C._emit] = m_emit
    self.fields["returntype"] = None
    stmt = SObj(ast.Return, "ret")
    elts = [SObj(ast.Name, f"e{i}") for i in range(n)]
    if n == 1 and ctx.choose(2, "single expression, not a tuple") == 0:
        stmt.fields["value"] = elts[0]
    else:
        t = SObj(ast.Tuple, "tuple")
        t.fields["elts"] = elts
        stmt.fields["value"] = t
    clo = I.closure_of(C._translate_return_stmt)
    I.run_closure(clo, [self, stmt], {})
    outs = top.outputs
    ctx.check("C02.converter.return.one_output_per_returned_expression", len(outs) == n, CL_OUT)
    names = [o.fields["name"] for o in outs]
    ctx.check("C02.converter.return.output_names_pairwise_distinct", len(set(map(str, names))) == len(names), CL_OUT)
    ctx.check("C02.converter.return.no_graph_input_returned_directly", not any(is_input(o) for o in outs), CL_OUT)
    ctx.check("C02.converter.return.outputs_produced_in_this_graph", all(o.fields["name"] in top.assigned_names for o in outs),
              "C02: 'every value name is defined exactly once and before use'")


def s_stmt_dispatch(ctx):
    I, self, top, state = world(ctx, set(), set())
    C = CM._conv_cls()
    called = []
    for nm in ("_translate_assign_stmt", "_translate_return_stmt", "_translate_if_stmt", "_translate_loop_stmt",
               "_translate_docstring", "_translate_nested_function_def"):
        I.models[getattr(C, nm)] = (lambda nm: lambda interp, slf, node, *a: called.append(nm))(nm)
    del I.models[C._translate_stmt]
    stmt = A.new_stmt(z3.Const("s", Obj), "s", kinds=A.STMT_KINDS)
    idx = [None, 0, 3][ctx.choose(3, "index_of_stmt")]
    clo = I.closure_of(C._translate_stmt)
    try:
        I.run_closure(clo, [self, stmt, idx], {})
    except PyRaise as e:
        cls = I.class_of(stmt)
        ok = cls is A.OtherStmt or cls is ast.Break or (cls is ast.Return and idx is None)
        ctx.check("C02.converter.stmt.raises_only_for_unsupported_statements_or_nested_return",
                  ok and isinstance(e.exc, ValueError) and "source position" in str(e.exc), CL_REF)
        return
    cls = I.class_of(stmt)
    ctx.cover("stmt." + cls.__name__)
    want = {ast.Assign: ["_translate_assign_stmt"], ast.AnnAssign: ["_translate_assign_stmt"], ast.Return: ["_translate_return_stmt"],
            ast.If: ["_translate_if_stmt"], ast.For: ["_translate_loop_stmt"], ast.While: ["_translate_loop_stmt"],
            ast.FunctionDef: ["_translate_nested_function_def"], A.PrintCall: [],
            A.DocString: (["_translate_docstring"] if idx == 0 else [])}
    ctx.check("C02.converter.stmt.supported_kinds_dispatch_to_their_translator", cls in want and called == want[cls], CL_REF)
    if cls is ast.Return:
        ctx.check("C02.converter.stmt.return_accepted_only_at_function_level", idx is not None, CL_REF)


F = lambda *q: [(REL, x) for x in q]
SCENARIOS = [
    Scenario("C02.converter.return", s_return,
             F("Converter._translate_return_stmt", "Converter._translate_return_stmt.ret", "Converter._translate_return_stmt.check_num_outputs",
               "Converter._emit_copy", "Converter._lookup"),
             kind="bounded", bound="at most 3 returned expressions, each denoting one of two graph inputs, one local value, a value of an enclosing function or a fresh value (all aliasing patterns)"),
    Scenario("C02.converter.stmt_dispatch", s_stmt_dispatch, F("Converter._translate_stmt"),
             trusted=["Converter._message builds the message from the source position (sourceinfo)"]),
]


def s_nested_signature(ctx):
    """Parameters of a (nested) function become graph inputs: their value names must not redefine a name
    already used in an enclosing scope (one namespace for all nested scopes)."""
    import onnx_ir as ir
    from pyvc.values import SSet, SStr, StrSort, term
    from onnxscript._internal import converter as conv
    I = Interp(ctx, models=CM.converter_models())
    self = CM.new_converter(I)
    C = CM._conv_cls()
    used0 = ctx.const("used", z3.SetSort(StrSort))
    self.fields["_used_vars"] = SSet(used0, "str")
    self.fields["_current_fn"] = FnStub("nested")
    made = []

    def m_make_value(interp, name, typeinfo, info):
        v = SObj(ir.Value, "param")
        v.fields.update(name=name)
        made.append(v)
        return v
    I.models[conv.make_value] = m_make_value

    def c_generate_unique_name(interp, slf, candidate="tmp"):
        # contract of _generate_unique_name (proved in C02.converter._generate_unique_name)
        r = interp.ctx.const("fresh", StrSort)
        u = slf.fields["_used_vars"]
        interp.ctx.assume(z3.Not(z3.IsMember(r, u.t)))
        u.t = z3.SetAdd(u.t, r)
        return SStr(r)
    I.models[C._generate_unique_name] = c_generate_unique_name
    p = ctx.const("param_name", StrSort)
    ctx.witness["param_name"] = p
    arg = SObj(ast.arg, "arg")
    arg.fields.update(arg=SStr(p), annotation=None, lineno=1, col_offset=0)
    args = SObj(ast.arguments, "arguments")
    args.fields.update(args=[arg], defaults=[], vararg=None, kwonlyargs=[], kw_defaults=[], kwarg=None)
    fn = SObj(ast.FunctionDef, "fn")
    fn.fields.update(args=args, returns=None, name="body", lineno=1, col_offset=0)
    clo = I.closure_of(C._translate_function_signature_common)
    I.run_closure(clo, [self, fn], {})
    ok = len(made) == 1
    ctx.check("C02.converter.signature.one_graph_input_per_tensor_parameter", ok, CL_OUT)
    if ok:
        name = made[0].fields["name"]
        ctx.check("C02.converter.signature.parameter_value_name_not_already_used_in_an_enclosing_scope",
                  z3.Not(z3.IsMember(term(name), used0)),
                  "C02: 'every value name is defined exactly once ... across the graph and all nested subgraphs, no subgraph redefines an outer name'")
        ctx.check("C02.converter.signature.parameter_name_recorded_as_used", z3.IsMember(term(name), self.fields["_used_vars"].t), CL_OUT)


SCENARIOS.append(Scenario("C02.converter.nested_signature", s_nested_signature, F("Converter._translate_function_signature_common")))


def s_nested_function_def(ctx):
    """_translate_nested_function_def: frame condition.  Translating a nested function (a Scan / SequenceMap body) must
    leave the translation state of the ENCLOSING function as it was: the declared return types (used by the enclosing
    function's return statement for the output count check and the output types), the current function, the scope
    depth; the nested function is bound under its name and recorded."""
    import onnx_ir as ir
    from onnxscript._internal import values
    I, self, top, state = world(ctx, set(), set())
    C = CM._conv_cls()
    outer_types = [None, ("FLOAT",), ("FLOAT", "INT64")][ctx.choose(3, "declared return types of the enclosing function")]
    nested_types = [None, ("BOOL",), ("FLOAT", "FLOAT")][ctx.choose(3, "declared return types of the nested function")]
    self.fields["returntype"] = outer_types
    fn = SObj(ast.FunctionDef, "nested_def")
    fn.fields.update(name="body", lineno=3, col_offset=4)
    depth_before = len(self.fields["_locals"])
    cur_before = self.fields["_current_fn"]

    def m_common(interp, slf, f):
        # callee contract (_translate_function_signature_common): returntype := declared types of f
        slf.fields["returntype"] = nested_types
        return slf.fields["_current_fn"]
    I.models[C._translate_function_def_common] = m_common
    an = self.fields["_analyzer"]

    def f_outer(x):
        raise AssertionError
    I.models[f_outer] = lambda interp, x: []
    an.fields["outer_scope_variables"] = f_outer
    I.run_closure(I.closure_of(C._translate_nested_function_def), [self, fn], {})
    ctx.check("C02.converter.nested_def.declared_return_types_of_the_enclosing_function_unchanged", self.fields["returntype"] == outer_types,
              "C02: 'the resulting FunctionProto/ModelProto passes onnx.checker' — graph outputs get their declared types; "
              "'A program ... is either refused ... or translated': the output-count check must use the enclosing function's annotation")
    ctx.check("C02.converter.nested_def.scope_and_current_function_restored", len(self.fields["_locals"]) == depth_before and
              self.fields["_current_fn"] is cur_before, CL_REF)
    sv = self.fields["_locals"][-1].get("body")
    val = sv.fields.get("value") if isinstance(sv, SObj) else getattr(sv, "value", None)
    ctx.check("C02.converter.nested_def.function_bound_under_its_name", isinstance(val, FnStub) and val.name == "body" and
              cur_before.nested_functions.get("body") is val, CL_REF)


SCENARIOS.append(Scenario("C02.converter.nested_function_def", s_nested_function_def, F("Converter._translate_nested_function_def")))



def s_exit_scope(ctx):
    """_enter_scope / _exit_scope: the block's graph is returned, the enclosing function and scope depth are restored,
    and every operator domain used inside the block (its opset imports) is imported by the enclosing function — the
    ModelProto / FunctionProto built from the enclosing function must import the domains of nodes in its subgraphs."""
    from pyvc.values import SInt
    I, self, top, state = world(ctx, set(), set())
    outer_has = ctx.choose(2, "the enclosing function already imports the custom domain") == 1
    v_outer, v_inner, v_def = ctx.int("v_outer"), ctx.int("v_inner"), ctx.int("v_default")
    top.opset_imports = {"": SInt(v_def)}
    if outer_has:
        top.opset_imports["my.custom"] = SInt(v_outer)
    depth = len(self.fields["_locals"])
    I.call(I.getattr(self, "_enter_scope"), ["then_branch", None])
    inner = self.fields["_current_fn"]
    ok_enter = inner is not top and len(self.fields["_locals"]) == depth + 1
    # nodes appended inside the block record their domains on the block's function (IRFunction.append_node)
    inner.opset_imports = {"my.custom": SInt(v_inner), "": SInt(v_def)}
    r = I.call(I.getattr(self, "_exit_scope"), [])
    ctx.check("C02.converter.scope.exit_returns_the_block_and_restores_the_enclosing_function",
              ok_enter and r is inner and self.fields["_current_fn"] is top and len(self.fields["_locals"]) == depth, CL_REF)
    ctx.check("C02.converter.scope.domains_used_inside_a_block_are_imported_by_the_enclosing_function", "my.custom" in top.opset_imports,
              "C02: 'every domain used ... is imported' — a custom-domain operator used only inside an if/loop body or nested function")
    if "my.custom" in top.opset_imports and outer_has:
        ctx.check("C02.converter.scope.existing_import_of_the_enclosing_function_is_kept", term(top.opset_imports["my.custom"]) == v_outer, CL_REF)


SCENARIOS.append(Scenario("C02.converter.scope", s_exit_scope, F("Converter._enter_scope", "Converter._exit_scope")))
