"""C05 contracts for the element-type rules of rules/common/_basic_rules.py: CastCast and CastIdentity.

Theory: theories/casting.py - ONNX Cast between numeric element types as bit-precise z3 FloatingPoint / BitVec terms.
The obligations quantify over EVERY value of the source type (all 2**64 doubles, all int64 ...), decided by z3's FP
theory; nothing is sampled.
"""
from __future__ import annotations

import z3

from pyvc.harness import Scenario
from pyvc.interp import Interp, PyRaise
from pyvc.core import Undecided
from pyvc.values import SObj
from theories import casting
from .irmodel import World, OpRecorder, Call

SCENARIOS = []
BASIC = "onnxscript/rewriter/rules/common/_basic_rules.py"
CL = "C05: 'whenever the rule applies to a model, the rewritten model yields the same outputs as before for all inputs (same element type, same shape, equal values)'"
CL_SIDE = "C05: 'A rule whose algebraic side-condition cannot be established from the model itself ... does not fire'"
TRUST = ["theories/casting.py: ONNX Cast = IEEE 754 convertFormat / convertFromInt with round-to-nearest-even, float->int by truncation "
         "(unspecified out of range); an integer reaches a 16-bit float through float32 (reference evaluator, ml_dtypes and onnxruntime do)",
         "z3 FloatingPoint theory"]


def _types():
    import onnx_ir as ir
    return [t for t in ir.DataType if t != ir.DataType.UNDEFINED]


def _name(t):
    return "unknown" if t is None else t.name


def cast16(v, src, dst):
    """theories.casting.cast, with an integer reaching a 16-bit float through float32 (see TRUST)."""
    if casting.NUMERIC[src][0] == "int" and dst in ("FLOAT16", "BFLOAT16"):
        mid, _ = casting.cast(v, src, "FLOAT")
        return casting.cast(mid, "FLOAT", dst)
    return casting.cast(v, src, dst)


def s_cast_cast(ctx):
    """CastCast: Cast(Cast(x, to=t2), to=t3) -> Cast(x, to=t3).
    Post: when the rule fires, for EVERY value v of the element type t1 of x, cast(cast(v, t2), t3) == cast(v, t3)
    (bit-precise; NaN = NaN, the sign of zero counts).  The element type of x is part of the side condition: rounding
    twice (float64 -> float32 -> float16) differs from rounding once, so with x of unknown type the rule must show the
    equality for every type x may have - or not fire."""
    import onnx_ir as ir
    from onnxscript.rewriter.rules.common import _basic_rules
    I = Interp(ctx)
    W = World(I)
    types = _types()
    t3 = types[ctx.choose(len(types), "final type")]
    t2 = types[ctx.choose(len(types), "intermediate type")]
    t1 = ([None] + types)[ctx.choose(len(types) + 1, "element type of x")]
    x = W.value("x", dims=None, rt=[], dtype=t1)
    to = ir.AttrInt64("to", int(t3))
    to_ignored = ir.AttrInt64("to", int(t2))
    rule = SObj(_basic_rules.CastCast, "rule")
    fired = I.truth(I.call(I.getattr(rule, "check"), [None, x, to, to_ignored]))
    if not fired:
        ctx.cover("CastCast.check_failed")
        return
    r = I.call(I.getattr(rule, "rewrite"), [OpRecorder(), x, to, to_ignored])
    ok = isinstance(r, Call) and r.op == "Cast" and r.args == (x,) and set(r.kwargs) == {"to"} and r.kwargs["to"] is to
    ctx.check("C05.rules.CastCast.replacement_is_one_cast_of_x_to_the_final_type", ok, CL)
    sources = [t1] if t1 is not None else [t for t in types if t.name in casting.NUMERIC]
    for s in sources:
        if not all(t.name in casting.NUMERIC for t in (s, t2, t3)):
            raise Undecided(f"CastCast fired for {_name(s)} -> {t2.name} -> {t3.name}: no cast theory for one of these types")
        v = casting.symbolic(f"v_{s.name}", s.name)
        mid, d1 = cast16(v, s.name, t2.name)
        two, d2 = cast16(mid, t2.name, t3.name)
        one, d3 = cast16(v, s.name, t3.name)
        ctx.witness["v"] = v
        goal = z3.Implies(z3.And(d1, d2), z3.And(d3, two == one))
        if t1 is None:
            ctx.check(f"C05.rules.CastCast.with_x_of_unknown_type_fires_only_if_valid_for_every_type[{s.name} -> {t2.name} -> {t3.name}]", goal, CL_SIDE)
        else:
            ctx.check(f"C05.rules.CastCast.same_value_for_every_input[{s.name} -> {t2.name} -> {t3.name}]", goal, CL)


SCENARIOS.append(Scenario("C05.rules.CastCast", s_cast_cast, [(BASIC, "CastCast.check"), (BASIC, "CastCast.rewrite")], trusted=TRUST, max_paths=40000))


def s_cast_identity(ctx):
    """CastIdentity: Cast(x, to=t) -> Identity(x) fires only when the element type of x is KNOWN and equal to t (then the
    cast is the identity on every value: theories/casting.cast(v, t, t) == v)."""
    import onnx_ir as ir
    from onnxscript.rewriter.rules.common import _basic_rules
    I = Interp(ctx)
    W = World(I)
    types = _types()
    t = types[ctx.choose(len(types), "target type")]
    t1 = ([None] + types)[ctx.choose(len(types) + 1, "element type of x")]
    x = W.value("x", dims=None, rt=[], dtype=t1)
    to = ir.AttrInt64("to", int(t))
    rule = SObj(_basic_rules.CastIdentity, "rule")
    fired = I.truth(I.call(I.getattr(rule, "check"), [None, x, to]))
    if not fired:
        ctx.cover("CastIdentity.check_failed")
        return
    ctx.check("C05.rules.CastIdentity.fires_only_for_a_known_source_type_equal_to_the_target", t1 is not None and t1 == t, CL_SIDE)
    r = I.call(I.getattr(rule, "rewrite"), [OpRecorder(), x, to])
    ctx.check("C05.rules.CastIdentity.replacement_is_identity_of_x", isinstance(r, Call) and r.op == "Identity" and r.args == (x,) and not r.kwargs, CL)
    if t1 is not None and t1 == t and t.name in casting.NUMERIC:
        v = casting.symbolic("v", t.name)
        out, d = casting.cast(v, t.name, t.name)
        ctx.check(f"C05.rules.CastIdentity.cast_to_the_same_type_is_the_identity[{t.name}]", z3.And(d, out == v), CL)


SCENARIOS.append(Scenario("C05.rules.CastIdentity", s_cast_identity, [(BASIC, "CastIdentity.check"), (BASIC, "CastIdentity.rewrite")],
                          trusted=TRUST, max_paths=2000))


# ------------------------------------------------------------------ Cast(ConstantOfShape) ---------------------

class CArr:
    """one-element constant array of a numeric ONNX type holding a symbolic value (what attr.value.numpy() returns)"""

    def __init__(self, t, tname):
        self.t = t
        self.tname = tname
        self.shape = (1,)
        self.ndim = 1
        self.size = 1

    def reshape(self, *a):
        return self

    def flatten(self):
        return self

    def __getitem__(self, k):
        return self if isinstance(k, slice) else PyScalar(self.t, self.tname)

    def item(self, *a):
        return PyScalar(self.t, self.tname)

    def astype(self, np_dtype):
        dst = _np_to_name(np_dtype)
        if dst is None:
            raise Undecided(f"astype to an unmodelled dtype {np_dtype!r}")
        out, _defined = cast16(self.t, self.tname, dst)
        return CArr(out, dst)


class PyScalar:
    """the Python scalar a numpy element converts to (int / float / bool), still symbolic"""

    def __init__(self, t, tname):
        self.t = t
        self.tname = tname


for _n in ("reshape", "flatten", "__getitem__", "item", "astype"):
    getattr(CArr, _n)._pyvc_native = True


def _np_to_name(np_dtype):
    import numpy as np
    import onnx_ir as ir
    for nm in casting.NUMERIC:
        try:
            if np.dtype(ir.DataType[nm].numpy()) == np.dtype(np_dtype):
                return nm
        except TypeError:
            continue
    return None


def s_cast_constant_of_shape(ctx):
    """cast_constant_of_shape_rule: Cast(ConstantOfShape(shape, value=v), to=t) -> ConstantOfShape(shape, value=v').
    Post, for EVERY value v of every numeric element type and every numeric target type t: the rewrite function builds the
    replacement (it does not raise) and v' = Cast(v, t) exactly (theories/casting.py, bit-precise; where Cast is
    unspecified - NaN or an out-of-range float to an integer type - nothing is demanded), stored with element type t."""
    import numpy as np
    import onnx_ir as ir
    from onnxscript.rewriter.rules.common import _cast_constant_of_shape as mod
    I = Interp(ctx)
    names = list(casting.NUMERIC)
    src = names[ctx.choose(len(names), "element type of the fill value")]
    dst = names[ctx.choose(len(names), "target type of the Cast")]
    v = casting.symbolic("v", src)
    ctx.witness["v"] = v
    scalar = SObj(ir.Attr, "value_attr")
    tensor = SObj(ir.Tensor, "value_tensor")

    def f_numpy():
        raise AssertionError
    I.models[f_numpy] = lambda interp: CArr(v, src)
    tensor.fields.update(numpy=f_numpy, dtype=ir.DataType[src])
    scalar.fields.update(name="value", value=tensor, type=ir.AttributeType.TENSOR)
    to = ir.AttrInt64("to", int(ir.DataType[dst]))
    made = []

    def m_tensor(interp, value, dtype=None, **kw):
        if isinstance(value, CArr):
            made.append((value.t, value.tname, dtype))
            return ("tensor", len(made))
        items = list(interp.iterate(value))
        if len(items) == 1 and isinstance(items[0], PyScalar):
            # numpy.array([python scalar], dtype): an integer that does not fit raises OverflowError, NaN / inf to an
            # integer type raise ValueError / OverflowError; everything else converts like astype
            ps = items[0]
            tgt = dtype.name if dtype is not None else ps.tname
            k_src, k_dst = casting.NUMERIC[ps.tname], casting.NUMERIC.get(tgt)
            if k_dst is None:
                raise Undecided(f"ir.tensor to an unmodelled dtype {dtype!r}")
            out, defined = cast16(ps.t, ps.tname, tgt)
            if k_dst[0] == "int":
                if k_src[0] == "int":
                    back, _ = casting.cast(out, tgt, ps.tname)
                    fits = (back == ps.t) if k_src[1] >= k_dst[1] or k_src[2] == k_dst[2] else z3.BoolVal(True)
                    if k_src[2] != k_dst[2]:
                        fits = z3.And(fits, (ps.t >= 0) if k_src[2] else z3.BoolVal(True))
                    if not interp.truth(wrap_bool(fits)):
                        raise PyRaise(OverflowError(f"Python integer out of bounds for {tgt.lower()}"))
                elif k_src[0] == "fp":
                    if not interp.truth(wrap_bool(defined)):
                        raise PyRaise(ValueError("cannot convert float NaN / infinity / out-of-range value to integer"))
            made.append((out, tgt, dtype))
            return ("tensor", len(made))
        raise Undecided("ir.tensor of something else")
    I.models[ir.tensor] = m_tensor
    rec = OpRecorder()
    shape = ("var", "shape")
    try:
        r = I.call(mod.fused_cast_constant_of_shape, [rec, shape, scalar, to])
    except PyRaise as e:
        ctx.check(f"C05.rules.cast_constant_of_shape.replacement_is_built_for_every_fill_value[{src} -> {dst}]", False,
                  "C05 / C04: 'optimize, rewrite ... return without raising' — " + f"raised {e.exc!r}")
        return
    ctx.check(f"C05.rules.cast_constant_of_shape.replacement_is_built_for_every_fill_value[{src} -> {dst}]", True, CL)
    ok = isinstance(r, Call) and r.op == "ConstantOfShape" and r.args == (shape,) and set(r.kwargs) == {"value"} and len(made) == 1 and r.kwargs["value"] == ("tensor", 1)
    ctx.check("C05.rules.cast_constant_of_shape.replacement_is_constant_of_shape_of_the_same_shape_input", ok, CL)
    if not ok:
        return
    t_new, tname_new, dtype_new = made[0]
    ctx.check(f"C05.rules.cast_constant_of_shape.new_fill_value_has_the_target_element_type[{src} -> {dst}]", tname_new == dst and dtype_new == ir.DataType[dst], CL)
    if tname_new != dst:
        return
    want, defined = cast16(v, src, dst)
    ctx.check(f"C05.rules.cast_constant_of_shape.new_fill_value_is_the_cast_of_the_old_one_for_every_value[{src} -> {dst}]",
              z3.Implies(defined, t_new == want), CL)


def wrap_bool(b):
    from pyvc.values import wrap
    return wrap(b)


SCENARIOS.append(Scenario("C05.rules.cast_constant_of_shape", s_cast_constant_of_shape,
                          [("onnxscript/rewriter/rules/common/_cast_constant_of_shape.py", "fused_cast_constant_of_shape")],
                          trusted=TRUST + ["numpy ndarray.astype between numeric dtypes is ONNX Cast; numpy.array([python scalar], dtype) raises for integers that do not fit"], max_paths=4000))
