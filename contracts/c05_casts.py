"""C05 contracts for the element-type rules of rules/common/_basic_rules.py: CastCast and CastIdentity.

Theory: theories/casting.py - ONNX Cast between numeric element types as bit-precise z3 FloatingPoint / BitVec terms.
The obligations quantify over EVERY value of the source type (all 2**64 doubles, all int64 ...), decided by z3's FP
theory; nothing is sampled.
"""
from __future__ import annotations

import z3

from pyvc.harness import Scenario
from pyvc.interp import Interp, PyRaise
from pyvc.core import Undecided
from pyvc.values import SObj
from theories import casting
from .irmodel import World, OpRecorder, Call

SCENARIOS = []
BASIC = "onnxscript/rewriter/rules/common/_basic_rules.py"
CL = "C05: 'whenever the rule applies to a model, the rewritten model yields the same outputs as before for all inputs (same element type, same shape, equal values)'"
CL_SIDE = "C05: 'A rule whose algebraic side-condition cannot be established from the model itself ... does not fire'"
TRUST = ["theories/casting.py: ONNX Cast = IEEE 754 convertFormat / convertFromInt with round-to-nearest-even, float->int by truncation "
         "(unspecified out of range); an integer reaches a 16-bit float through float32 (reference evaluator, ml_dtypes and onnxruntime do)",
         "z3 FloatingPoint theory"]


def _types():
    import onnx_ir as ir
    return [t for t in ir.DataType if t != ir.DataType.UNDEFINED]


def _name(t):
    return "unknown" if t is None else t.name


def cast16(v, src, dst):
    """theories.casting.cast, with an integer reaching a 16-bit float through float32 (see TRUST)."""
    if casting.NUMERIC[src][0] == "int" and dst in ("FLOAT16", "BFLOAT16"):
        mid, _ = casting.cast(v, src, "FLOAT")
        return casting.cast(mid, "FLOAT", dst)
    return casting.cast(v, src, dst)


def s_cast_cast(ctx):
    """CastCast: Cast(Cast(x, to=t2), to=t3) -> Cast(x, to=t3).
    Post: when the rule fires, for EVERY value v of the element type t1 of x, cast(cast(v, t2), t3) == cast(v, t3)
    (bit-precise; NaN = NaN, the sign of zero counts).  The element type of x is part of the side condition: rounding
    twice (float64 -> float32 -> float16) differs from rounding once, so with x of unknown type the rule must show the
    equality for every type x may have - or not fire."""
    import onnx_ir as ir
    from onnxscript.rewriter.rules.common import _basic_rules
    I = Interp(ctx)
    W = World(I)
    types = _types()
    t3 = types[ctx.choose(len(types), "final type")]
    t2 = types[ctx.choose(len(types), "intermediate type")]
    t1 = ([None] + types)[ctx.choose(len(types) + 1, "element type of x")]
    x = W.value("x", dims=None, rt=[], dtype=t1)
    to = ir.AttrInt64("to", int(t3))
    to_ignored = ir.AttrInt64("to", int(t2))
    rule = SObj(_basic_rules.CastCast, "rule")
    fired = I.truth(I.call(I.getattr(rule, "check"), [None, x, to, to_ignored]))
    if not fired:
        ctx.cover("CastCast.check_failed")
        return
    r = I.call(I.getattr(rule, "rewrite"), [OpRecorder(), x, to, to_ignored])
    ok = isinstance(r, Call) and r.op == "Cast" and r.args == (x,) and set(r.kwargs) == {"to"} and r.kwargs["to"] is to
    ctx.check("C05.rules.CastCast.replacement_is_one_cast_of_x_to_the_final_type", ok, CL)
    sources = [t1] if t1 is not None else [t for t in types if t.name in casting.NUMERIC]
    for s in sources:
        if not all(t.name in casting.NUMERIC for t in (s, t2, t3)):
            raise Undecided(f"CastCast fired for {_name(s)} -> {t2.name} -> {t3.name}: no cast theory for one of these types")
        v = casting.symbolic(f"v_{s.name}", s.name)
        mid, d1 = cast16(v, s.name, t2.name)
        two, d2 = cast16(mid, t2.name, t3.name)
        one, d3 = cast16(v, s.name, t3.name)
        ctx.witness["v"] = v
        goal = z3.Implies(z3.And(d1, d2), z3.And(d3, two == one))
        if t1 is None:
            ctx.check(f"C05.rules.CastCast.with_x_of_unknown_type_fires_only_if_valid_for_every_type[{s.name} -> {t2.name} -> {t3.name}]", goal, CL_SIDE)
        else:
            ctx.check(f"C05.rules.CastCast.same_value_for_every_input[{s.name} -> {t2.name} -> {t3.name}]", goal, CL)


SCENARIOS.append(Scenario("C05.rules.CastCast", s_cast_cast, [(BASIC, "CastCast.check"), (BASIC, "CastCast.rewrite")], trusted=TRUST, max_paths=40000))


def s_cast_identity(ctx):
    """CastIdentity: Cast(x, to=t) -> Identity(x) fires only when the element type of x is KNOWN and equal to t (then the
    cast is the identity on every value: theories/casting.cast(v, t, t) == v)."""
    import onnx_ir as ir
    from onnxscript.rewriter.rules.common import _basic_rules
    I = Interp(ctx)
    W = World(I)
    types = _types()
    t = types[ctx.choose(len(types), "target type")]
    t1 = ([None] + types)[ctx.choose(len(types) + 1, "element type of x")]
    x = W.value("x", dims=None, rt=[], dtype=t1)
    to = ir.AttrInt64("to", int(t))
    rule = SObj(_basic_rules.CastIdentity, "rule")
    fired = I.truth(I.call(I.getattr(rule, "check"), [None, x, to]))
    if not fired:
        ctx.cover("CastIdentity.check_failed")
        return
    ctx.check("C05.rules.CastIdentity.fires_only_for_a_known_source_type_equal_to_the_target", t1 is not None and t1 == t, CL_SIDE)
    r = I.call(I.getattr(rule, "rewrite"), [OpRecorder(), x, to])
    ctx.check("C05.rules.CastIdentity.replacement_is_identity_of_x", isinstance(r, Call) and r.op == "Identity" and r.args == (x,) and not r.kwargs, CL)
    if t1 is not None and t1 == t and t.name in casting.NUMERIC:
        v = casting.symbolic("v", t.name)
        out, d = casting.cast(v, t.name, t.name)
        ctx.check(f"C05.rules.CastIdentity.cast_to_the_same_type_is_the_identity[{t.name}]", z3.And(d, out == v), CL)


SCENARIOS.append(Scenario("C05.rules.CastIdentity", s_cast_identity, [(BASIC, "CastIdentity.check"), (BASIC, "CastIdentity.rewrite")],
                          trusted=TRUST, max_paths=2000))
