"""C12 — Python literals are promoted identically by converter, eager mode and builder.

One specification `promote` (from the property text): the literal at position i becomes a tensor
of the type bound to the type variable of position i — "the type of the sibling operand that shares
its type constraint when there is one" — otherwise INT64 / FLOAT / BOOL by Python type (bool
before int).  The three implementations are verified against it:

  autocast.cast_inputs (shared by static_cast_inputs / dynamic_cast_inputs)     converter + eager
  tape_builder.BuilderBase._cast_inputs                                         builder
  autocast._get_dtype / _promotable / cast_pyvalue_to_os_tensor                 eager default types
  builder.GraphBuilder._get_or_create_constant                                  constant cache (IEEE model)
  converter.Converter._emit_const                                               one Constant per literal
"""
from __future__ import annotations

import ast

import z3

from pyvc.harness import Scenario
from pyvc.interp import Interp, PyRaise
from pyvc.values import SObj, SStr, SInt, SBool, SReal, Opaque, term, wrap
from . import convmodel as CM

CL = "C12: 'the type of the sibling operand that shares its type constraint when there is one, otherwise INT64, FLOAT or BOOL by Python type'"
AUTOCAST = "onnxscript/_internal/autocast.py"
TAPE = "onnxscript/_internal/tape_builder.py"


def _autocast():
    from onnxscript._internal import autocast
    return autocast


# ------------------------------------------------------------------ cast_inputs ------------

def mk_signature(I, m, via_schema=False):
    """m formal inputs; type-variable names symbolic strings; the last one may be variadic."""
    ctx = I.ctx
    formals = []
    tvs = []
    for k in range(m):
        tv = ctx.const(f"tv{k}", z3.StringSort())
        tvs.append(tv)
        f = SObj(None, f"formal{k}")
        f.pycls = object
        variadic = (k == m - 1) and ctx.choose(2, "variadic") == 1
        homog = True
        if variadic:
            homog = ctx.choose(2, "homogeneous") == 0
        if via_schema:
            import onnx
            opt = onnx.defs.OpSchema.FormalParameterOption
            f.fields.update(type_str=SStr(tv), option=(opt.Variadic if variadic else opt.Single), is_homogeneous=homog)
        else:
            tc = SObj(None, "tc")
            tc.pycls = object
            tc.fields["name"] = SStr(tv)
            # the set of types the variable admits: one (And/Or/Xor: T = tensor(bool)) or several - the binding rule does not depend on it
            if not formals:
                several = ctx.choose(2, "the type variables admit several types") == 1
            tc.fields["allowed_types"] = frozenset(["t0", "t1"][: 2 if several else 1])
            f.fields.update(type_constraint=tc, variadic=variadic, homogeneous=homog)
        f.fields["ghost"] = (tv, variadic, homog)
        formals.append(f)
    sig = SObj(None, "signature")
    sig.pycls = object
    sig.fields["inputs"] = formals
    return sig, formals


def spec_binding(ctx, formals, infos, i):
    """(typevar term or None, candidates) for position i under `promote`.

    returns None (position beyond the formals and not variadic: error), or
    (tv_is_identifier: z3 Bool | False, tv term | None, heterogeneous: bool)"""
    m = len(formals)
    if i < m:
        tv, _var, _h = formals[i].fields["ghost"]
        return tv, False
    tv, var, homog = formals[-1].fields["ghost"]
    if not var:
        return None
    if not homog:
        return "hetero", True
    return tv, False


def check_promote(ctx, tag, formals, args, infos, casts, first_wins):
    """casts[i] = (x, binding) as observed.  Spec: binding is None iff the position has no identifier
    type variable or no operand sharing that variable carries type information; otherwise it is the
    type information of such an operand (first/last when several — equal under well-typedness)."""
    n = len(args)
    ok_len = len(casts) == n
    ctx.check(f"C12.{tag}.one_result_per_argument", ok_len, CL)
    if not ok_len:
        return
    tvs = []
    for i in range(n):
        sb = spec_binding(ctx, formals, infos, i)
        tvs.append(sb)
    for i in range(n):
        if args[i] is None:
            continue  # omitted optional input: passes through, no promotion
        x, b = casts[i]
        ctx.check(f"C12.{tag}.argument_order_preserved", x is args[i], CL)
        tv, hetero = tvs[i]
        if hetero:
            ctx.check(f"C12.{tag}.heterogeneous_variadic_has_no_binding", b is None, CL)
            continue
        ident = z3.Not(z3.Contains(tv, z3.StringVal("(")))
        # operands that share the type variable and carry type information
        sharers = []
        for j in range(n):
            tvj, hj = tvs[j]
            if hj or infos[j] is None:
                continue
            sharers.append((j, tvj == tv))
        if b is None:
            goal = z3.BoolVal(True) if not sharers else z3.Or(z3.Not(ident), z3.Not(z3.Or(*[c for _, c in sharers])))
            ctx.check(f"C12.{tag}.no_binding_only_if_no_typed_sibling", goal, CL)
        else:
            owners = [c for j, c in sharers if infos[j] is b]
            goal = z3.And(ident, z3.Or(*owners)) if owners else z3.BoolVal(False)
            ctx.check(f"C12.{tag}.binding_is_type_of_a_sibling_with_same_typevar", goal, CL)


def s_cast_inputs(ctx, m=2, n=2):
    I = Interp(ctx)
    sig, formals = mk_signature(I, m)
    args, infos = [], []
    for i in range(n):
        x = SObj(None, f"arg{i}")
        x.pycls = object
        args.append(x)
        infos.append(None)
    # which arguments carry type information (non-literal tensors)
    tokens = {}
    for i in range(n):
        if ctx.choose(2, f"typed{i}") == 1:
            t = SObj(None, f"type{i}")
            t.pycls = object
            infos[i] = t

    def get_type_info(x):
        raise AssertionError

    def cast(x, b):
        raise AssertionError
    casts = []
    models = {get_type_info: lambda interp, x: infos[[a is x for a in args].index(True)],
              cast: lambda interp, x, b: (casts.append((x, b)) or ("cast", x, b))}
    I.models.update(models)
    clo = I.closure_of(_autocast().cast_inputs)
    try:
        r = I.run_closure(clo, [get_type_info, cast, sig, args], {})
    except PyRaise as e:
        too_many = n > m and not formals[-1].fields["ghost"][1]
        ctx.check("C12.cast_inputs.raises_only_for_too_many_arguments", too_many and isinstance(e.exc, ValueError), CL)
        return
    ctx.cover(f"cast_inputs.m{m}.n{n}")
    ctx.check("C12.cast_inputs.returns_the_cast_results_in_order",
              isinstance(r, tuple) and len(r) == len(casts) and all(a[1] is c[0] and a[2] is c[1] for a, c in zip(r, casts)), CL)
    if n > m and not formals[-1].fields["ghost"][1]:
        ctx.check("C12.cast_inputs.too_many_arguments_refused", False, CL)
        return
    check_promote(ctx, "cast_inputs", formals, args, infos, casts, first_wins=False)


def s_cast_inputs_nosig(ctx):
    I = Interp(ctx)
    args = [SObj(object, "a0"), SObj(object, "a1")]
    casts = []

    def cast(x, b):
        raise AssertionError
    I.models[cast] = lambda interp, x, b: (casts.append((x, b)) or ("cast", x, b))
    clo = I.closure_of(_autocast().cast_inputs)
    r = I.run_closure(clo, [None, cast, None, args], {})
    ctx.check("C12.cast_inputs.no_signature_casts_every_argument_without_binding",
              [c[0] for c in casts] == args and all(c[1] is None for c in casts) and len(r) == 2, CL)


def s_builder_cast_inputs(ctx, m=2, n=2):
    """tape_builder.BuilderBase._cast_inputs — same spec, schema-shaped formals."""
    import onnx_ir as ir
    from onnxscript._internal import tape_builder
    I = Interp(ctx)
    sig, formals = mk_signature(I, m, via_schema=True)
    args, infos = [], []
    for i in range(n):
        k = ctx.choose(3, f"argkind{i}")  # 0 literal, 1 ir.Value, 2 None (omitted optional)
        if k == 1:
            x = SObj(ir.Value, f"val{i}")
            infos.append(x)
        elif k == 2:
            x = None
            infos.append(None)
        else:
            x = SObj(object, f"lit{i}")
            infos.append(None)
        args.append(x)
    casts = []
    self = SObj(tape_builder.BuilderBase, "builder")

    def m_input_to_ir_value(interp, slf, value, like_type=None):
        casts.append((value, like_type))
        return ("ir", value, like_type)
    I.models[tape_builder.BuilderBase._input_to_ir_value] = m_input_to_ir_value
    clo = I.closure_of(tape_builder.BuilderBase._cast_inputs)
    try:
        r = I.run_closure(clo, [self, sig, args], {})
    except PyRaise as e:
        too_many = n > m and not formals[-1].fields["ghost"][1]
        ctx.check("C12.builder._cast_inputs.raises_only_for_too_many_arguments", too_many and isinstance(e.exc, ValueError), CL)
        return
    ctx.cover(f"builder_cast_inputs.m{m}.n{n}")
    # None arguments pass through without a call; re-insert them for the comparison
    full = []
    it = iter(casts)
    okshape = True
    for a, res in zip(args, r):
        if a is None:
            okshape &= res is None
            full.append((None, None))
        else:
            c = next(it, None)
            okshape &= c is not None and res == ("ir", c[0], c[1])
            full.append(c if c is not None else (None, None))
    ctx.check("C12.builder._cast_inputs.one_result_per_argument_none_passes_through", okshape and len(r) == n, CL)
    if not okshape:
        return
    nn = [i for i in range(n)]
    # spec comparison on all positions (None positions trivially have no binding)
    check_promote(ctx, "builder._cast_inputs", formals, args, infos, full, first_wins=True)


# ------------------------------------------------------------------ default dtypes ----------

def s_get_dtype(ctx):
    import numpy as np
    I = Interp(ctx)
    k = ctx.choose(5, "pytype")
    depth = 0
    if k == 0:
        v = SBool(ctx.bool("b")); want = np.bool_
    elif k == 1:
        v = SInt(ctx.int("i")); want = np.int64
    elif k == 2:
        v = SReal(ctx.const("f", z3.RealSort())); want = np.float32
    elif k == 3:
        inner = [SBool(ctx.bool("b")), SInt(ctx.int("i")), SReal(ctx.const("f", z3.RealSort()))][ctx.choose(3, "elt")]
        want = {SBool: np.bool_, SInt: np.int64, SReal: np.float32}[type(inner)]
        v = [inner, 7]
    else:
        v = "text"; want = None
    clo = I.closure_of(_autocast()._get_dtype)
    try:
        r = I.run_closure(clo, [v], {})
    except PyRaise as e:
        ctx.check("C12.autocast._get_dtype.raises_only_for_non_numbers", want is None and isinstance(e.exc, TypeError), CL)
        return
    ctx.cover("_get_dtype.kind%d" % k)
    ctx.check("C12.autocast._get_dtype.bool_before_int_then_int64_float32", r is want,
              "C12: 'otherwise INT64, FLOAT or BOOL by Python type' (bool is an int in Python: it must be tested first)")
    clo2 = I.closure_of(_autocast()._promotable)
    p = I.run_closure(clo2, [v], {})
    ctx.check("C12.autocast._promotable.numbers_and_nonempty_lists", p is (want is not None), CL)


def s_emit_const(ctx):
    """Converter._emit_const: every literal occurrence gets its own Constant node carrying exactly
    that value, under a fresh name, and is marked castable."""
    I = Interp(ctx, models=CM.converter_models())
    self = CM.new_converter(I)
    k = ctx.choose(4, "lit")
    v = [SInt(ctx.int("i")), SReal(ctx.const("f", z3.RealSort())), SBool(ctx.bool("b")), [SInt(ctx.int("i0"))]][k]
    name = [None, "c"][ctx.choose(2, "name")]
    C = CM._conv_cls()
    clo = I.closure_of(C._emit_const)
    log = ctx.ghost["log"]
    r1 = I.run_closure(clo, [self, v, name, Opaque("info")], {})
    r2 = I.run_closure(clo, [self, v, name, Opaque("info")], {})
    consts = [n for n in log.nodes if n["op"] == "Constant"]
    ctx.check("C12.converter._emit_const.one_constant_node_per_call", len(consts) == 2 and len(log.nodes) == 2,
              "C12: 'Distinct literals never share a tensor' — the converter never shares: one Constant per occurrence")
    ctx.check("C12.converter._emit_const.value_is_the_literal",
              all(CM.const_of(n["out_values"][0]) is v for n in consts), CL)
    ctx.check("C12.converter._emit_const.names_fresh_and_distinct",
              len(log.names) == 2 and term(r1.fields["name"]) is log.names[0] and term(r2.fields["name"]) is log.names[1], CL)
    cast = self.fields["_castable"]
    ctx.check("C12.converter._emit_const.result_marked_castable",
              any(x is r1.fields["name"] for x in cast) and any(x is r2.fields["name"] for x in cast),
              "C12: literals are polymorphic: static_cast_inputs inserts CastLike exactly for castable operands")


def _mk(fn, *a):
    def run(ctx):
        return fn(ctx, *a)
    return run


F = lambda rel, *q: [(rel, x) for x in q]
# every length is covered by contracts/c12_anylen.py (deductive); these small instances run the same code on concrete lists (cross-check)
SHAPES = [(1, 2), (2, 2), (2, 3)]

SCENARIOS = (
    [Scenario(f"C12.autocast.cast_inputs[m={m},n={n}]", _mk(s_cast_inputs, m, n), F(AUTOCAST, "cast_inputs"),
              kind="bounded", bound=f"signature with {m} formal inputs (last possibly variadic), {n} arguments; type-variable names, variadic/homogeneous flags and which operands are typed are symbolic")
     for m, n in SHAPES]
    + [Scenario("C12.autocast.cast_inputs[no signature]", s_cast_inputs_nosig, F(AUTOCAST, "cast_inputs"))]
    + [Scenario(f"C12.builder._cast_inputs[m={m},n={n}]", _mk(s_builder_cast_inputs, m, n),
                F(TAPE, "BuilderBase._cast_inputs", "BuilderBase._cast_inputs.adapt"),
                kind="bounded", bound=f"{m} formal inputs, {n} arguments (literal / ir.Value / None each)")
       for m, n in SHAPES]
    + [Scenario("C12.autocast._get_dtype", s_get_dtype, F(AUTOCAST, "_get_dtype", "_promotable")),
       Scenario("C12.converter._emit_const", s_emit_const, F("onnxscript/_internal/converter.py", "Converter._emit_const", "Converter._emit1"))]
)


# ------------------------------------------------------------------ builder constant cache --

BUILDER = "onnxscript/_internal/builder.py"
CL_CACHE = "C12: 'Distinct literals never share a tensor with a different value (0.0 vs -0.0, values equal under == but different after casting)'"


def _sym_scalar(ctx, name):
    from pyvc.values import SFloat, FP64
    k = ctx.choose(3, name + "-kind")
    if k == 0:
        return SBool(ctx.bool(name))
    if k == 1:
        v = ctx.int(name)
        ctx.assume(z3.And(v > -(1 << 53), v < (1 << 53)))
        return SInt(v)
    return SFloat(ctx.const(name, FP64))


def _same_tensor(v1, v2, dtype):
    """Would ir.tensor(v1, dtype) and ir.tensor(v2, dtype) hold the same bits?  (dtype concrete)"""
    import onnx_ir as ir
    from pyvc.values import SFloat, FP64
    is_float_dtype = dtype in (None, ir.DataType.FLOAT, ir.DataType.DOUBLE, ir.DataType.FLOAT16)

    def num(v):
        if isinstance(v, SFloat):
            return "fp", v.t
        if isinstance(v, SBool):
            return "int", z3.If(v.t, z3.IntVal(1), z3.IntVal(0))
        return "int", v.t
    (k1, t1), (k2, t2) = num(v1), num(v2)
    if k1 == "int" and k2 == "int":
        same_type = isinstance(v1, SBool) == isinstance(v2, SBool) or dtype is not None
        return z3.And(t1 == t2, z3.BoolVal(same_type))
    if k1 == "fp" and k2 == "fp":
        bits = z3.Or(z3.And(z3.fpIsNaN(t1), z3.fpIsNaN(t2)), z3.fpToIEEEBV(t1) == z3.fpToIEEEBV(t2))
        if dtype is not None and not is_float_dtype:
            return z3.Or(bits, z3.fpEQ(t1, t2))  # integer target: the sign of zero is not representable
        return bits
    f, i = (t1, t2) if k1 == "fp" else (t2, t1)
    eqv = z3.And(z3.Not(z3.Or(z3.fpIsNaN(f), z3.fpIsInf(f))), z3.fpToReal(f) == z3.ToReal(i))
    if dtype is not None and not is_float_dtype:
        return eqv
    return z3.And(eqv, z3.Not(z3.And(z3.fpIsZero(f), z3.fpIsNegative(f))))


def s_constant_cache(ctx, as_list=False):
    import onnx_ir as ir
    from onnxscript._internal import builder
    I = Interp(ctx, models=CM.converter_models())
    root = SObj(builder.GraphBuilder, "root")
    root.fields.update(_root=root, _constant_cache={}, _graph=Opaque("graph"))
    made = []

    def m_initializer(interp, self, tensor, name=None, qualify=True):
        v = SObj(ir.Value, "init")
        v.fields.update(name=name, const_value=tensor)
        made.append(v)
        return v
    I.models[builder.GraphBuilder.initializer] = m_initializer
    I.models[builder._constant_name] = lambda interp, *a: "const_name"
    I.models[builder._dtype_suffix] = lambda interp, *a: "sfx"
    dts = [None, ir.DataType.FLOAT, ir.DataType.DOUBLE, ir.DataType.INT64, ir.DataType.BOOL]
    d1 = dts[ctx.choose(len(dts), "dtype1")]
    d2 = dts[ctx.choose(len(dts), "dtype2")]
    v1, v2 = _sym_scalar(ctx, "v1"), _sym_scalar(ctx, "v2")
    a1, a2 = ([v1], [v2]) if as_list else (v1, v2)
    clo = I.closure_of(builder.GraphBuilder._get_or_create_constant)
    r1 = I.run_closure(clo, [root, a1, d1], {})
    r2 = I.run_closure(clo, [root, a2, d2], {})
    tag = "list" if as_list else "scalar"
    ctx.check(f"C12.builder.constant_cache.{tag}.first_call_creates_initializer_with_the_value",
              len(made) >= 1 and r1 is made[0] and (made[0].fields["const_value"].fields["pyvalue"] is a1 or
                                                    (as_list and made[0].fields["const_value"].fields["pyvalue"] == [v1])), CL_CACHE)
    if d1 is None and made:
        from pyvc.values import SFloat
        got = made[0].fields["const_value"].fields["dtype"]
        want = {SBool: (None, ir.DataType.BOOL), SInt: (ir.DataType.INT64,), SFloat: (ir.DataType.FLOAT,)}[type(v1)]
        ctx.check(f"C12.builder.constant.{tag}.default_dtype_is_INT64_FLOAT_or_BOOL_by_python_type", got in want,
                  "C12: 'otherwise INT64, FLOAT or BOOL by Python type' (bool is a subclass of int: it must not become INT64)")
    if r2 is r1:
        ctx.cover(f"constant_cache.{tag}.hit")
        # effective dtype of both requests (as the code computes the default) must agree for a hit
        t1 = made[0].fields["const_value"].fields["dtype"]
        ctx.check(f"C12.builder.constant_cache.{tag}.hit_returns_tensor_equal_to_what_a_miss_would_create",
                  _same_tensor(v1, v2, t1), CL_CACHE)
    else:
        ctx.cover(f"constant_cache.{tag}.miss")
        ctx.check(f"C12.builder.constant_cache.{tag}.miss_creates_initializer_with_the_value",
                  len(made) == 2 and r2 is made[1], CL_CACHE)


SCENARIOS = SCENARIOS + [
    Scenario("C12.builder.constant_cache[scalar]", _mk(s_constant_cache, False), F(BUILDER, "GraphBuilder._get_or_create_constant"),
             trusted=["IEEE-754 binary64 model of Python float (z3 FP theory); Python == / hash on bool, int, float keys: True == 1 == 1.0, 0.0 == -0.0",
                      "ir.tensor(value, dtype) stores the value converted to dtype (onnx_ir, outside /repo)"],
             assumptions=["python ints in the cache scenario bounded by 2**53 (exact int/float comparison)"]),
    Scenario("C12.builder.constant_cache[list]", _mk(s_constant_cache, True), F(BUILDER, "GraphBuilder._get_or_create_constant")),
]


def s_constant_cache_mixed(ctx):
    """A scalar and a sequence (or sequences of different lengths) are different tensors: a request of one shape must
    never be answered from the cache entry of another shape, whatever the values."""
    import onnx_ir as ir
    from onnxscript._internal import builder
    from pyvc.values import SFloat, FP64
    I = Interp(ctx, models=CM.converter_models())
    root = SObj(builder.GraphBuilder, "root")
    root.fields.update(_root=root, _constant_cache={}, _graph=Opaque("graph"))
    made = []

    def m_initializer(interp, self, tensor, name=None, qualify=True):
        v = SObj(ir.Value, "init")
        v.fields.update(name=name, const_value=tensor)
        made.append(v)
        return v
    I.models[builder.GraphBuilder.initializer] = m_initializer
    I.models[builder._constant_name] = lambda interp, *a: "const_name"
    I.models[builder._dtype_suffix] = lambda interp, *a: "sfx"
    dts = [None, ir.DataType.FLOAT, ir.DataType.INT64]
    d1 = dts[ctx.choose(len(dts), "dtype1")]
    d2 = dts[ctx.choose(len(dts), "dtype2")]

    def operand(tag):
        n = [0, 2, 3][ctx.choose(3, f"{tag}: scalar / 2 elements / 3 elements")]
        k = ctx.choose(3, f"{tag}-kind")

        def one(nm):
            if k == 0:
                return SBool(ctx.bool(nm))
            if k == 1:
                v = ctx.int(nm)
                ctx.assume(z3.And(v > -(1 << 53), v < (1 << 53)))
                ctx.witness[nm] = v
                return SInt(v)
            v = ctx.const(nm, FP64)
            ctx.witness[nm] = v
            return SFloat(v)
        return (one(tag) if n == 0 else [one(f"{tag}_{i}") for i in range(n)]), n
    a1, n1 = operand("a")
    a2, n2 = operand("b")
    if n1 == n2:
        ctx.cover("same shape (covered by the scalar / list scenarios)")
        return
    clo = I.closure_of(builder.GraphBuilder._get_or_create_constant)
    r1 = I.run_closure(clo, [root, a1, d1], {})
    r2 = I.run_closure(clo, [root, a2, d2], {})
    ctx.check("C12.builder.constant_cache.mixed.no_hit_between_a_scalar_and_a_sequence_or_different_lengths",
              r2 is not r1 and len(made) == 2, CL_CACHE)


SCENARIOS = SCENARIOS + [
    Scenario("C12.builder.constant_cache[mixed shapes]", s_constant_cache_mixed, F(BUILDER, "GraphBuilder._get_or_create_constant", "_constant_cache_key"),
             kind="bounded", bound="scalar, 2- and 3-element sequences; element values unbounded (IEEE doubles, ints below 2**53, bools)"),
]


def s_builder_get_schema(ctx):
    """BuilderBase._get_schema(op_type, domain, version): the schema of THIS (op, version, domain) request — whatever
    was asked before on this or another builder in the process (the type constraints that decide how a literal is
    promoted differ between opset versions of one operator)."""
    import onnx
    from onnxscript._internal import tape_builder
    I = Interp(ctx)

    class Schema:
        def __init__(self, op, version, domain):
            self.op, self.version, self.domain = op, version, domain
    known = z3.Function("SchemaExists", z3.IntSort(), z3.BoolSort())
    calls = []

    def m_get_schema(interp, op, version=None, domain=""):
        calls.append((op, version, domain))
        if interp.ctx.branch(known(term(version))):
            return Schema(op, version, domain)
        raise PyRaise(onnx.defs.SchemaError("no schema"))
    I.models[onnx.defs.get_schema] = m_get_schema
    b1 = SObj(tape_builder.BuilderBase, "builder1")
    b2 = SObj(tape_builder.BuilderBase, "builder2") if ctx.choose(2, "second request on another builder") == 1 else b1
    v1, v2 = ctx.int("version1"), ctx.int("version2")
    ctx.witness["version1"], ctx.witness["version2"] = v1, v2
    first_none = ctx.choose(2, "first request without a version") == 1
    clo = I.closure_of(tape_builder.BuilderBase._get_schema)
    I.run_closure(clo, [b1, "BatchNormalization", "", None if first_none else SInt(v1)], {})
    second_none = ctx.choose(2, "second request without a version") == 1
    r = I.run_closure(clo, [b2, "BatchNormalization", "", None if second_none else SInt(v2)], {})
    if second_none:
        ctx.check("C12.builder.get_schema.none_without_a_version", r is None, "C12")
        return
    if isinstance(r, Schema):
        ctx.check("C12.builder.get_schema.schema_is_the_one_of_the_requested_version", z3.And(term(r.version) == v2, known(v2)) if r.op == "BatchNormalization" and r.domain == "" else False,
                  "C12: 'a literal ... takes the element type of the tensor operands it is constrained to match' — by the signature of the opset version in use, "
                  "independent of what was built before (C14)")
    else:
        ctx.check("C12.builder.get_schema.none_only_if_the_registry_has_no_schema_for_this_version", z3.Not(known(v2)) if r is None else False, "C12")


SCENARIOS = SCENARIOS + [
    Scenario("C12.builder.get_schema", s_builder_get_schema, F("onnxscript/_internal/tape_builder.py", "BuilderBase._get_schema"),
             trusted=["onnx.defs.get_schema(op, version, domain) is a function of its arguments (raises SchemaError when absent)"]),
]


def s_cast_pyvalue(ctx):
    """autocast.cast_pyvalue_to_os_tensor (eager promotion): a Python literal becomes a tensor of EXACTLY the requested
    element type (the type bound by the sibling tensor operands), of the default type of its Python type otherwise; any
    other value is passed through untouched."""
    import numpy as np
    from onnxscript._internal import autocast
    from onnxscript import tensor
    I = Interp(ctx)
    I.models[np.array] = lambda interp, v, dtype=None: ("array", v, dtype)
    I.models[tensor.Tensor] = lambda interp, arr, *a: ("Tensor", arr)
    class NotALiteral:
        pass
    vals = [True, 3, 2.5, [True, False], [1, 2], [0.5, -0.0], "text", [], None, NotALiteral(), np.zeros(2), ["a"], (1, 2)]
    v = vals[ctx.choose(len(vals), "python value")]
    dts = [None, np.float32, np.float64, np.float16, np.int64, np.int32, np.uint8, np.bool_]
    dt = dts[ctx.choose(len(dts), "requested dtype")]
    try:
        r = I.run_closure(I.closure_of(autocast.cast_pyvalue_to_os_tensor), [v] + ([dt] if dt is not None else []), {})
    except PyRaise as e:
        ctx.check("C12.eager.cast_pyvalue.never_raises_for_these_values", False, "C12")
        return
    first = v[0] if isinstance(v, list) and v else v
    promotable = isinstance(first, (bool, int, float)) and not (isinstance(v, list) and not v) and not isinstance(v, tuple)
    if not promotable:
        ctx.check("C12.eager.cast_pyvalue.other_values_pass_through", r is v, "C12")
        return
    default = np.bool_ if isinstance(first, bool) else (np.int64 if isinstance(first, int) else np.float32)
    want = ("Tensor", ("array", v, dt if dt is not None else default))
    ctx.check("C12.eager.cast_pyvalue.literal_gets_the_requested_element_type_else_the_default_of_its_python_type", r == want,
              "C12: 'a literal ... takes the element type of the tensor operands it is constrained to match, otherwise INT64, FLOAT or BOOL by Python type' — "
              "the same in eager mode as in the converter (CastLike) and the builder")


SCENARIOS = SCENARIOS + [
    Scenario("C12.eager.cast_pyvalue", s_cast_pyvalue, F("onnxscript/_internal/autocast.py", "cast_pyvalue_to_os_tensor", "_promotable", "_get_dtype"),
             kind="evaluation" if False else "deductive", trusted=["np.array(value, dtype) converts to dtype (numpy)"]),
]


def s_static_cast_inputs(_ctx):
    """autocast.static_cast_inputs (converter side of the promotion rule), executed from source on the real operator
    signatures: a castable literal is wrapped in CastLike(literal, T-sibling) exactly when a non-literal operand is bound
    to the same type variable; tensors, omitted inputs and literals without such a sibling are passed through."""
    import onnx
    import onnx_ir as ir
    from contracts.c17_opsets import Agg
    from pyvc.core import Ctx
    from onnxscript._internal import autocast, converter
    agg = Agg()
    cl = "C12: 'a literal ... takes the element type of the tensor operands it is constrained to match'"

    class V:
        def __init__(self, name):
            self.name = name

        def __repr__(self):
            return self.name
    # (op, operands) with L = castable literal, T = tensor value, N = omitted input; expected: index of the sibling each literal is cast like
    # (a tuple when several typed siblings share the type variable: the property asks for THE TYPE of such a sibling, any of them will do)
    cases = [("Add", "TL", {1: 0}), ("Add", "LT", {0: 1}), ("Add", "LL", {}), ("Add", "TT", {}), ("Where", "TTL", {2: 1}), ("Where", "TLT", {1: 2}),
             ("Where", "LTT", {}), ("Clip", "TLL", {1: 0, 2: 0}), ("Clip", "TNL", {2: 0}), ("Gather", "TL", {}), ("Pow", "TL", {}), ("Concat", "TLT", {1: (0, 2)}),
             ("Max", "TLL", {1: 0, 2: 0})]
    n = 0
    for op_name, shape, want in cases:
        n += 1
        ctx = Ctx([], {"solver_s": 0.0, "queries": 0})
        I = Interp(ctx)
        sig = ir.schemas.OpSignature.from_op_schema(onnx.defs.get_schema(op_name, 18))
        args = [None if k == "N" else V(f"{'lit' if k == 'L' else 'x'}{i}") for i, k in enumerate(shape)]
        conv = SObj(converter.Converter, "converter")
        emitted = []
        I.models[converter.Converter._is_castable] = lambda interp, slf, name: name.startswith("lit")
        I.models[converter.Converter._generate_unique_name] = lambda interp, slf, cand="tmp": f"{cand}#{len(emitted)}"

        def m_emit1(interp, slf, outs, op_, ins, attrs=None):
            r = V(outs[0])
            emitted.append((op_, list(ins), r))
            return r
        I.models[converter.Converter._emit1] = m_emit1
        try:
            res = I.run_closure(I.closure_of(autocast.static_cast_inputs), [conv, sig, tuple(args)], {})
            ok = len(res) == len(args)
            detail = []
            for i, (a, r) in enumerate(zip(args, res)):
                if i in want:
                    e = [x for x in emitted if x[2] is r]
                    sibs = want[i] if isinstance(want[i], tuple) else (want[i],)
                    good = len(e) == 1 and e[0][0] == "CastLike" and len(e[0][1]) == 2 and e[0][1][0] is a and any(e[0][1][1] is args[j] for j in sibs)
                    if not good:
                        detail.append(f"operand {i} ({a}) should be CastLike({a}, {' or '.join(str(args[j]) for j in sibs)}) but is {r} {e}")
                    ok = ok and good
                else:
                    if r is not a:
                        detail.append(f"operand {i} ({a}) should be passed through but became {r}")
                    ok = ok and r is a
            ok = ok and len(emitted) == len(want)
            d = f"{op_name}{tuple(args)} -> {tuple(res)}; emitted {[(e[0], e[1]) for e in emitted]}; " + "; ".join(detail)
        except Exception as e:  # noqa: BLE001
            ok, d = False, f"{op_name}{tuple(args)}: {type(e).__name__}: {e}"
        agg.ob("C12.converter.static_cast_inputs.literal_is_cast_like_its_type_sibling_and_nothing_else_changes", ok, d, cl, case=f"{op_name} {shape}")
    return {"obligations": agg.obs, "paths": n, "covered": [f"signature_cases={n}"], "notes": [], "functions": []}


SCENARIOS = SCENARIOS + [
    Scenario("C12.converter.static_cast_inputs", s_static_cast_inputs,
             F("onnxscript/_internal/autocast.py", "static_cast_inputs", "static_cast_inputs.get_type_info", "static_cast_inputs.cast_like", "cast_inputs"), kind="evaluation",
             trusted=["ir.schemas.OpSignature.from_op_schema (type constraints of the ONNX operator schemas)"]),
]


def s_input_to_ir_value(ctx):
    """BuilderBase._input_to_ir_value(value, like_type): values and None pass through; a Python literal is promoted with
    the element type of its type sibling when that type is known, with the default type otherwise; when there IS a
    sibling but its element type is not known at build time the promoted constant is wrapped in CastLike(constant,
    sibling) so that it takes the sibling's type at run time (the builder's equivalent of the converter's CastLike)."""
    import onnx_ir as ir
    from onnxscript._internal import tape_builder as tb
    I = Interp(ctx)
    B = tb.BuilderBase
    self = SObj(B, "builder")
    what = ["value", "none", "literal"][ctx.choose(3, "operand")]
    like_kind = ["no sibling", "sibling of known type", "sibling without type", "sibling whose type has no dtype"][ctx.choose(4, "type sibling")]
    like = None
    if like_kind != "no sibling":
        like = SObj(ir.Value, "sibling")
        if like_kind == "sibling of known type":
            tp = SObj(ir.TensorType, "type")
            tp.fields["dtype"] = ir.DataType.DOUBLE
            like.fields["type"] = tp
        elif like_kind == "sibling without type":
            like.fields["type"] = None
        else:
            tp = SObj(ir.TensorType, "type")
            tp.fields["dtype"] = None
            like.fields["type"] = tp
    promoted = SObj(ir.Value, "promoted")
    calls = []
    I.models[B._promote_constant] = lambda interp, slf, v, dt: (calls.append(("promote", v, dt)) or promoted)
    cast = SObj(ir.Value, "castlike_out")
    I.models[B.call_op] = lambda interp, slf, op, args, kwargs, **k: (calls.append(("op", op, list(args), dict(kwargs))) or cast)
    I.models[B._get_default_opset_version] = lambda interp, slf, d: 21
    v = {"value": SObj(ir.Value, "operand"), "none": None, "literal": 2.5}[what]
    r = I.run_closure(I.closure_of(B._input_to_ir_value), [self, v] + ([like] if like is not None else []), {})
    cl = "C12: 'the tensor it becomes has the same element type ... in a graph traced with the graph builder: the type of the sibling operand that shares its type constraint when there is one'"
    if what != "literal":
        ctx.check("C12.builder.input_to_ir_value.values_and_None_pass_through", r is v and not calls, cl)
        return
    want_dtype = ir.DataType.DOUBLE if like_kind == "sibling of known type" else None
    ctx.check("C12.builder.input_to_ir_value.literal_promoted_with_the_known_sibling_type_else_default", calls[:1] == [("promote", 2.5, want_dtype)], cl)
    if like_kind in ("sibling without type", "sibling whose type has no dtype"):
        ctx.check("C12.builder.input_to_ir_value.unknown_sibling_type_is_matched_at_run_time_by_CastLike",
                  len(calls) == 2 and calls[1][0] == "op" and calls[1][1] == "CastLike" and calls[1][2] == [promoted, like] and r is cast, cl)
    else:
        ctx.check("C12.builder.input_to_ir_value.no_cast_when_the_type_is_decided_at_build_time", len(calls) == 1 and r is promoted, cl)


SCENARIOS = SCENARIOS + [
    Scenario("C12.builder.input_to_ir_value", s_input_to_ir_value, F("onnxscript/_internal/tape_builder.py", "BuilderBase._input_to_ir_value")),
]


def s_constant_cache_real_builder(_ctx):
    """The REAL GraphBuilder on pairs of special literals (nan, inf, signed zeros, True/1/1.0, equal lists): requesting a constant twice never
    raises (a second request is a cache hit or gets its own initializer NAME — onnx_ir refuses two initializers of one name) and every request
    returns an initializer holding exactly the bits of the literal at the requested type."""
    import itertools
    import math
    import numpy as np
    import onnx_ir as ir
    from contracts.c17_opsets import Agg
    from onnxscript._internal import builder
    agg = Agg()
    lits = [float("nan"), -float("nan"), float("inf"), -float("inf"), 0.0, -0.0, 1.0, 1, True, 0, False, [float("nan")], [0.0, -0.0], [-0.0, 0.0], [1, 2], [1.0, 2.0]]
    n = 0
    for a, b in itertools.product(lits, repeat=2):
        for dt in (None, ir.DataType.FLOAT, ir.DataType.DOUBLE):
            n += 1
            case = f"{a!r} then {b!r} as {dt.name if dt else 'default type'}"
            g = ir.Graph([], [], nodes=[], opset_imports={"": 18}, name="g")
            gb = builder.GraphBuilder(g)
            try:
                va = gb._get_or_create_constant(a, dt)
                vb = gb._get_or_create_constant(b, dt)
            except Exception as e:  # noqa: BLE001
                agg.ob("C12.builder.constant_cache.requesting_two_literals_never_raises", False, f"{case}: {type(e).__name__}: {str(e)[:120]}", CL_CACHE,
                       case=("a NaN literal requested twice" if any(isinstance(x, float) and math.isnan(x) for x in (a if isinstance(a, list) else [a])) else case))
                continue
            agg.ob("C12.builder.constant_cache.requesting_two_literals_never_raises", True, case, CL_CACHE)
            ok = True
            for lit, v in ((a, va), (b, vb)):
                arr = v.const_value.numpy()
                want = np.array(lit, dtype=arr.dtype)
                # bit-equal, except that all NaNs count as one value (sign / payload of a NaN are not observable through ONNX arithmetic)
                ok = ok and arr.shape == want.shape and (arr.tobytes() == want.tobytes() or (
                    arr.dtype.kind == "f" and np.array_equal(np.isnan(arr), np.isnan(want))
                    and np.where(np.isnan(arr), 0, arr).tobytes() == np.where(np.isnan(want), 0, want).tobytes()))
            agg.ob("C12.builder.constant_cache.each_request_returns_the_bits_of_its_literal", ok, f"{case}: got {va.const_value.numpy()!r} and {vb.const_value.numpy()!r}", CL_CACHE,
                   case=case)
    return {"obligations": agg.obs, "paths": n, "covered": [f"literal_pairs={n}"], "notes": [], "functions": []}


SCENARIOS.append(Scenario("C12.builder.constant_cache[real builder, special literals]", s_constant_cache_real_builder,
                          F(BUILDER, "GraphBuilder._get_or_create_constant", "_constant_cache_key") + [("onnxscript/_internal/tape_builder.py", "_constant_name")], kind="evaluation",
                          trusted=["numpy: np.array(literal, dtype).tobytes() is the reference for 'the bits of the literal'"]))


LITERAL_VALUE = '''
# a float literal beside a DOUBLE / FLOAT16 tensor: value in the translated graph (onnxruntime) vs eager mode vs the graph builder vs numpy
import sys
import numpy as np
import onnx_ir as ir
import onnxruntime as ort
from onnxscript import script, DOUBLE, FLOAT16
from onnxscript import opset18 as op
from onnxscript._internal import builder
@script(default_opset=op)
def beside_double(x: DOUBLE[2]) -> DOUBLE[2]:
    return x + 0.1
@script(default_opset=op)
def beside_float16(x: FLOAT16[2]) -> FLOAT16[2]:
    return x + 1.00048828125002980232238769531250      # 1 + 2**-11 + 2**-25: just above a float16 tie
bad = 0
for fn, lit, npt, irt in ((beside_double, 0.1, np.float64, ir.DataType.DOUBLE), (beside_float16, 1 + 2**-11 + 2**-25, np.float16, ir.DataType.FLOAT16)):
    x = np.zeros(2, npt)
    graph = ort.InferenceSession(fn.to_model_proto().SerializeToString(), providers=["CPUExecutionProvider"]).run(None, {"x": x})[0][0]
    eager = np.asarray(fn(x))[0]
    g = ir.Graph([], [], nodes=[], opset_imports={"": 18}, name="g")
    xv = ir.Value(name="x", type=ir.TensorType(irt), shape=ir.Shape([2])); g.inputs.append(xv)
    gb = builder.GraphBuilder(g)
    gb.op.Add(xv, lit)
    built = [v.const_value.numpy() for v in g.initializers.values()][0]
    want = npt(lit)
    same = bool(graph == want and eager == want and built == want)
    print(f"{fn.name}: literal {lit!r} -> graph {graph!r}, eager {eager!r}, builder {built!r}, numpy {want!r} {'SAME' if same else 'DIFFERENT'}")
    if not same:
        bad += 1
sys.exit(1 if bad else 0)
'''


def s_literal_value_beside_wide_or_narrow_float(_ctx):
    """'the tensor it becomes has the same element type AND VALUE in the translated graph, in eager evaluation and in a graph traced with the
    graph builder': a float literal that is not exactly representable in float32, beside a DOUBLE sibling (0.1) and beside a FLOAT16 sibling
    (a value just above a float16 tie, where rounding to float32 first changes the result).  Decided natively (onnxruntime / numpy)."""
    import subprocess
    import sys
    import tempfile
    from contracts.c17_opsets import Agg
    agg = Agg()
    with tempfile.NamedTemporaryFile("w", suffix=".py", delete=False) as f:
        f.write(LITERAL_VALUE)
    p = subprocess.run([sys.executable, f.name], capture_output=True, text=True, timeout=900)
    lines = [ln for ln in p.stdout.splitlines() if "->" in ln]
    for tag, key in (("0.1 beside a DOUBLE tensor", "beside_double"), ("1+2**-11+2**-25 beside a FLOAT16 tensor", "beside_float16")):
        ln = [x for x in lines if x.startswith(key)]
        ok = bool(ln) and p.returncode in (0, 1)
        same = bool(ln) and ln[0].endswith("SAME")
        agg.ob("C12.value.a_float_literal_has_the_same_value_in_graph_eager_and_builder", ok and same, (ln[0] if ln else (p.stdout + p.stderr)[-300:]),
               "C12: 'the tensor it becomes has the same element type and value in the translated graph, in eager evaluation and in a graph traced with the graph builder'", case=tag)
    return {"obligations": agg.obs, "paths": 2, "covered": ["literal_value_cases=2"], "notes": [], "functions": []}


SCENARIOS.append(Scenario("C12.value.float_literal_beside_double_or_float16", s_literal_value_beside_wide_or_narrow_float,
                          [("onnxscript/_internal/converter.py", "Converter._emit_const"), ("onnxscript/_internal/autocast.py", "static_cast_inputs")], kind="evaluation",
                          trusted=["onnxruntime Cast / CastLike and numpy conversions round to nearest even"]))
