"""Converter control-flow plumbing: _translate_if_stmt, _translate_block, _translate_loop_stmt,
_translate_return_stmt, _generate_unique_name (C01 alignment, C02 well-formedness, C14 determinism).

Set-iteration model (DESIGN 2.4): the analyzer's results are `NSet`s — sets whose iteration order is an
arbitrary permutation chosen *per set object* (every path = one choice; iterating the same object twice
gives the same order, a new object from `|`, `&`, `.intersection` ... gets an independent order;
`sorted()` is the one canonical order).  Obligations:
  alignment   position k of then-outputs / else-outputs / If outputs (resp. Loop inputs / body
              parameters / body outputs / Loop outputs) all stand for the same Python variable, for
              every choice of orders;
  determinism two translations of the same statement with independently chosen orders emit the same
              structure (2-safety by self-composition);
  scoping     every subgraph output is produced inside the subgraph; names handed to _emit are fresh.
Driver bound: up to 3 live variables per statement (names and orders arbitrary).
"""
from __future__ import annotations

import ast
import itertools

import z3

from pyvc.harness import Scenario
from pyvc.interp import Interp, PyRaise, LoopSpec
from pyvc.values import SObj, SStr, SInt, SSet, Opaque, term, StrSort
from . import convmodel as CM

REL = "onnxscript/_internal/converter.py"
CL_ALIGN = "C01: 'if/else ... variables defined in one or both branches, loop-carried variables' — each control-flow output must be bound to the variable it was computed for"
CL_DET = "C14: 'gives the same serialized result in every process - regardless of hash randomisation'"
CL_SCOPE = "C02: 'every subgraph output is produced inside that subgraph'"


class NSet:
    """A set of concrete elements whose iteration order is an arbitrary permutation per object."""

    _pyvc_nset = True

    def __init__(self, ctx, elems, label="set"):
        self.ctx = ctx
        self.elems = frozenset(elems)
        self.label = label
        self.order = None

    def _new(self, elems):
        return NSet(self.ctx, elems, self.label + "'")

    def __iter__(self):
        if self.order is None:
            perms = list(itertools.permutations(sorted(self.elems)))
            self.order = list(perms[self.ctx.choose(len(perms), "order of " + self.label)])
        return iter(list(self.order))

    def __len__(self):
        return len(self.elems)

    def __contains__(self, x):
        return x in self.elems

    def __bool__(self):
        return bool(self.elems)

    def _other(self, o):
        return o.elems if isinstance(o, NSet) else frozenset(o)

    def __or__(self, o):
        return self._new(self.elems | self._other(o))

    __ror__ = __or__

    def __and__(self, o):
        return self._new(self.elems & self._other(o))

    __rand__ = __and__

    def __sub__(self, o):
        return self._new(self.elems - self._other(o))

    def union(self, *os):
        e = self.elems
        for o in os:
            e = e | self._other(o)
        return self._new(e)

    def intersection(self, *os):
        e = self.elems
        for o in os:
            e = e & self._other(o)
        return self._new(e)

    def difference(self, *os):
        e = self.elems
        for o in os:
            e = e - self._other(o)
        return self._new(e)

    def copy(self):
        return self._new(self.elems)

    def __eq__(self, o):
        return isinstance(o, (NSet, set, frozenset)) and self.elems == self._other(o)

    __hash__ = None


def m_sorted(interp, v, key=None, reverse=False):
    if isinstance(v, NSet):
        return sorted(v.elems, key=key, reverse=reverse)
    from pyvc.interp import _m_sorted
    return _m_sorted(interp, v, key=key, reverse=reverse)


class FnStub:
    """Stand-in for irbuilder.IRFunction (an onnx_ir.Function subclass): what the converter uses of it."""

    def __init__(self, name):
        self.name = name
        self.inputs = []
        self.outputs = []
        self.ghost_nodes = []
        self.ordered_inputs_and_attrs = []
        self.graph = self
        self.outer_scope_variables = {}
        self.nested_functions = {}
        self.opset_imports = {}

    @property
    def assigned_names(self):
        return [v.fields["name"] for n in self.ghost_nodes for v in n["out_values"]]

    def append_parameter(self, p):
        self.ordered_inputs_and_attrs.append(p)
        self.inputs.append(p)
    append_parameter._pyvc_native = True

    def add_nested_function(self, fun):
        self.nested_functions[fun.name] = fun
    add_nested_function._pyvc_native = True


class AbstractStmt:
    """A statement of the block whose translation is abstracted: it (re)defines `defs`."""

    def __init__(self, defs, label, aliases=None):
        self.defs = list(defs)
        self.label = label
        self.aliases = dict(aliases or {})  # var -> outer variable whose value it is bound to (`y = t`)
        self.lineno = 1
        self.col_offset = 0


def var_of(v):
    return v.fields.get("ghost_var") if isinstance(v, SObj) else None


def world(ctx, assigned, live_out, exposed=None):
    """Interp + converter stand-in whose analyzer returns the given NSets."""
    from onnxscript._internal import converter as conv, irbuilder, values
    import onnx_ir as ir
    models = CM.converter_models()
    I = Interp(ctx, models=models)
    self = CM.new_converter(I)
    top = FnStub("f")
    self.fields["_current_fn"] = top
    log = ctx.ghost["log"]
    I.models[sorted] = m_sorted
    I.models[irbuilder.IRFunction] = lambda interp, name, *a: FnStub(name)
    C = CM._conv_cls()

    def m_emit(interp, slf, outputs, callee, inputs, attrs=None):
        r = CM.m_emit(interp, slf, outputs, callee, inputs, attrs)
        entry = log.nodes[-1]
        fn = slf.fields["_current_fn"]
        fn.ghost_nodes.append(entry)
        if entry["op"] == "Identity" and entry["inputs"]:
            # a copy emitted by _emit_copy(value, python_var) stands for python_var (the suggested name); copies of
            # anonymous values inherit the variable of their source
            cands = dict(log.names)
            for v in entry["out_values"]:
                c = cands.get(v.fields["name"])
                v.fields["ghost_var"] = c if isinstance(c, str) and c in ("a", "b", "c", "cond", "n") else var_of(entry["inputs"][0])
        return r
    I.models[C._emit] = m_emit

    def m_generate_unique_name(interp, slf, candidate="tmp"):
        # deterministic fresh names: a counter (freshness contract of _generate_unique_name is proved separately);
        # the *candidate* is recorded so that determinism of the structure can be compared
        n = len(log.names)
        name = f"%{n}"
        log.names.append((name, candidate if isinstance(candidate, str) else "<sym>"))
        return name
    I.models[C._generate_unique_name] = m_generate_unique_name

    def m_translate_stmt(interp, slf, node, index_of_stmt=None):
        if not isinstance(node, AbstractStmt):
            raise AssertionError(f"unexpected statement {node!r}")
        for var in node.defs:
            if var in node.aliases:
                # `var = other`: binds the name to the existing value, nothing is emitted
                sv0 = interp.call(interp.getattr(slf, "_lookup"), [node.aliases[var], CM.real_info()])
                interp.call(interp.getattr(slf, "_bind"), [var, sv0])
                continue
            name = interp.call(interp.getattr(slf, "_generate_unique_name"), [var])
            v = interp.call(interp.getattr(slf, "_emit"), [[name], "Op_" + node.label, []])
            v.fields["ghost_var"] = var
            sv = interp.call(values.SymbolValue, [v, CM.real_info()])
            interp.call(interp.getattr(slf, "_bind"), [var, sv])
    I.models[C._translate_stmt] = m_translate_stmt

    def m_translate_expr(interp, slf, node, target=None):
        name = interp.call(interp.getattr(slf, "_generate_unique_name"), [target or "tmp"])
        return interp.call(interp.getattr(slf, "_emit"), [[name], "Expr", []])
    I.models[C._translate_expr] = m_translate_expr

    def m_make_value(interp, name, typeinfo, info):
        v = SObj(ir.Value, "param")
        v.fields.update(name=name, ghost_node=None, ghost_var=None, type=None)

        def producer():
            raise AssertionError
        interp.models[producer] = lambda i2: None  # a graph/subgraph input has no producer
        v.fields["producer"] = producer
        return v
    I.models[conv.make_value] = m_make_value
    I.models[ir.AttrGraph] = lambda interp, name, g: ("graph-attr", name, g)

    an = SObj(object, "analyzer")
    state = {"assigned": assigned, "live_out": live_out, "exposed": exposed}

    def f_assigned(x):
        raise AssertionError

    def f_live_out(x):
        raise AssertionError

    def f_exposed(x):
        raise AssertionError

    def f_cc(x):
        raise AssertionError
    I.models[f_assigned] = lambda interp, x: NSet(ctx, state["assigned"], "assigned_vars")
    I.models[f_live_out] = lambda interp, x: (None if state["live_out"] is None else NSet(ctx, state["live_out"], "live_out"))
    I.models[f_exposed] = lambda interp, x: NSet(ctx, state["exposed"] or (), "exposed_uses")
    I.models[f_cc] = lambda interp, x: state.get("cc")
    an.fields.update(assigned_vars=f_assigned, live_out=f_live_out, exposed_uses=f_exposed, constant_if_condition=f_cc)
    self.fields["_analyzer"] = an
    return I, self, top, state


def bind_outer(I, self, top, names):
    """Outer-scope bindings of variables (values produced in the enclosing graph)."""
    from onnxscript._internal import values
    for var in names:
        name = I.call(I.getattr(self, "_generate_unique_name"), [var])
        v = I.call(I.getattr(self, "_emit"), [[name], "Outer", []])
        v.fields["ghost_var"] = var
        I.call(I.getattr(self, "_bind"), [var, I.call(values.SymbolValue, [v, CM.real_info()])])


def structure(log):
    """Order-sensitive fingerprint of everything emitted (what ends up in the proto)."""
    out = []
    for n in log.nodes:
        out.append((n["op"], tuple(str(x) if not isinstance(x, SObj) else x.fields.get("name") for x in n["inputs"]),
                    tuple(n["outputs"]), tuple(var_of(v) for v in n["out_values"])))
    return out, list(log.names)


# ------------------------------------------------------------------ if ----------------------

VARS = ["a", "b", "c"]


_CANON = {}


def _if_case(ctx, k):
    """assigned-in-then, assigned-in-else, live-out, bound-outside: subsets of k variables
    (k = 3: all three assigned on both paths and live — the order-sensitive case)."""
    vs = VARS[:k]
    if k == 3:
        outer = vs if ctx.choose(2, "bound before") == 0 else []
        return vs, list(vs), list(vs), list(vs), outer
    then_defs = [v for v in vs if ctx.choose(2, f"then defines {v}") == 0]
    else_defs = [v for v in vs if ctx.choose(2, f"else defines {v}") == 0]
    live = [v for v in vs if ctx.choose(2, f"{v} live after") == 0]
    outer = [v for v in vs if ctx.choose(2, f"{v} bound before") == 0]
    return vs, then_defs, else_defs, live, outer


def run_if(ctx, case):
    vs, then_defs, else_defs, live, outer = case
    assigned = set(then_defs) | set(else_defs)
    I, self, top, state = world(ctx, assigned, set(live))
    # the defining module may happen to have GLOBALS named like the function's local variables: a local that is unassigned on one
    # path is an unbound local in Python, never the global
    if ctx.choose(2, "the module has globals named like the variables") == 1:
        self.fields["globals"] = dict(self.fields.get("globals") or {}, **{v: 0.5 for v in vs})
    bind_outer(I, self, top, outer)
    # the `if` may sit inside a loop body / branch that re-binds the variables: the innermost binding is the current one
    nested = len(vs) <= 2 and bool(outer) and ctx.choose(2, "if nested in a scope that re-binds the outer variables") == 1
    ctx.ghost["if_nested"] = nested
    if nested:
        I.call(I.getattr(self, "_enter_scope"), ["enclosing_body", None])
        bind_outer(I, self, top, outer)
    current = {}
    for var in outer:
        sv = I.call(I.getattr(self, "_lookup"), [var, CM.real_info()])
        current[var] = sv.fields["value"] if isinstance(sv, SObj) else None
    ctx.ghost["if_current"] = current
    stmt = SObj(ast.If, "ifstmt")
    test = SObj(ast.Name, "test")
    aliases = {}
    if then_defs and ctx.choose(2, "then-branch aliases an outer computed value") == 1:
        aliases[then_defs[0]] = "t_outer"
        bind_outer(I, self, top, ["t_outer"])
    elif len(then_defs) >= 2 and ctx.choose(2, "then-branch binds a second variable to the value of the first (`z = y`)") == 1:
        aliases[then_defs[1]] = then_defs[0]
    ctx.ghost["if_alias"] = repr(sorted(aliases.items()))
    ctx.ghost["if_alias_map"] = dict(aliases)
    stmt.fields.update(test=test, body=[AbstractStmt(then_defs, "then", aliases)] if then_defs else [AbstractStmt([], "then")],
                       orelse=[AbstractStmt(else_defs, "else")] if else_defs else [AbstractStmt([], "else")],
                       lineno=1, col_offset=0)
    C = CM._conv_cls()
    clo = I.closure_of(C._translate_if_stmt)
    log = ctx.ghost["log"]
    try:
        I.run_closure(clo, [self, stmt], {})
    except PyRaise as e:
        return ("raised", e.exc), None, None
    ifn = [n for n in log.nodes if n["op"] == "If"]
    return ("ok", ifn, I, self), structure(log), top


def s_if(ctx, k=2):
    case = _if_case(ctx, k)
    vs, then_defs, else_defs, live, outer = case
    D = sorted((set(then_defs) | set(else_defs)) & set(live))
    res, struct1, top = run_if(ctx, case)
    if res[0] == "raised":
        # refusal is fine when there is nothing to output, or a live variable is unassigned on one path and unbound outside
        unbound = [v for v in D if (v not in then_defs or v not in else_defs) and v not in outer]
        ctx.check("C01.converter.if.refuses_only_untranslatable", (not D) or bool(unbound),
                  "C01: 'A program is either refused at decoration time or translated faithfully'")
        return
    _, ifn, I, self = res
    ctx.cover("if.translated")
    unbound = [v for v in D if (v not in then_defs or v not in else_defs) and v not in outer]
    ctx.check("C02.converter.if.a_variable_unassigned_on_one_path_and_unbound_outside_is_refused", not unbound,
              "C02: 'Programs outside the subset raise an exception when the decorator runs ... they never yield a malformed proto' / C01: 'either refused at "
              "decoration time or translated faithfully' — a name assigned in the function is a local: unassigned on one path it is unbound there, a module "
              "global of the same name must not be substituted")
    ok = len(ifn) == 1
    ctx.check("C01.converter.if.one_If_node", ok, CL_ALIGN)
    if not ok:
        return
    n = ifn[0]
    then_g = [a for a in n["attrs"] if a[1] == "then_branch"][0][2]
    else_g = [a for a in n["attrs"] if a[1] == "else_branch"][0][2]
    outs = n["out_values"]
    ctx.check("C01.converter.if.output_count_is_live_defs", len(outs) == len(D) == len(then_g.outputs) == len(else_g.outputs), CL_ALIGN)
    if not (len(outs) == len(D) == len(then_g.outputs) == len(else_g.outputs)):
        return
    scope = self.fields["_locals"][-1]
    bound = {}
    for var in D:
        sv = scope.get(var)
        val = sv.fields["value"] if isinstance(sv, SObj) else None
        idx = [i for i, o in enumerate(outs) if o is val]
        bound[var] = idx[0] if idx else None
    ctx.check("C01.converter.if.every_live_def_bound_to_an_If_output", all(bound[v] is not None for v in D) and
              sorted(bound.values()) == list(range(len(D))), CL_ALIGN)
    # `z = y` inside the then-branch: the output for z may be y's value itself (when y is not an output) — it then carries y's ghost label
    am = ctx.ghost.get("if_alias_map") or {}
    aligned = all(bound[v] is not None and var_of(then_g.outputs[bound[v]]) in (v, am.get(v, v)) and var_of(else_g.outputs[bound[v]]) == v for v in D)
    ctx.check("C01.converter.if.branch_outputs_aligned_with_bound_variables", aligned, CL_ALIGN)
    for g, nm in ((then_g, "then"), (else_g, "else")):
        inside = all(o.fields["name"] in g.assigned_names for o in g.outputs)
        ctx.check(f"C02.converter.if.{nm}_outputs_produced_inside_the_subgraph", inside, CL_SCOPE)
        ctx.check(f"C02.converter.if.{nm}_outputs_are_pairwise_distinct_values", len({id(o) for o in g.outputs}) == len(g.outputs),
                  "C02: 'every emitted proto is well-formed' - the outputs of a graph are distinct names (two variables bound to one value need a copy) / "
                  "C01: each If output carries the value of ITS variable")
    # a branch that does not assign a live variable returns a copy of the CURRENT (innermost) binding of it
    log = ctx.ghost["log"]
    current = ctx.ghost["if_current"]
    for g, nm, defs in ((then_g, "then", then_defs), (else_g, "else", else_defs)):
        for v in D:
            if v in defs or bound[v] is None:
                continue
            o = g.outputs[bound[v]]
            src = [e for e in log.nodes if any(x is o for x in e["out_values"])]
            ok = len(src) == 1 and src[0]["op"] == "Identity" and len(src[0]["inputs"]) == 1 and src[0]["inputs"][0] is current.get(v)
            ctx.check(f"C01.converter.if.{nm}_branch_without_assignment_copies_the_current_binding", ok,
                      "C01: 'the value every variable holds after an if/else ... is the value the same Python would give'")
    # determinism (2-safety): every choice of iteration orders must emit the structure of the first explored one
    key = ("if", repr(case), ctx.ghost.get("if_alias"), ctx.ghost.get("if_nested"))
    canon = _CANON.setdefault(key, struct1)
    ctx.check("C14.converter.if.translation_independent_of_set_iteration_order", struct1 == canon, CL_DET)


# ------------------------------------------------------------------ loop --------------------

def _loop_case(ctx, k):
    vs = VARS[:k]
    is_for = ctx.choose(2, "for/while") == 0
    if k == 3:
        return vs, list(vs), list(vs), list(vs), is_for
    body_defs = [v for v in vs if ctx.choose(2, f"body defines {v}") == 0]
    exposed = [v for v in vs if ctx.choose(2, f"{v} used before defined in body") == 0]
    live = [v for v in vs if ctx.choose(2, f"{v} live after") == 0]
    return vs, body_defs, exposed, live, is_for


def run_loop(ctx, case):
    vs, body_defs, exposed, live, is_for = case
    I, self, top, state = world(ctx, set(body_defs), set(live), set(exposed))
    bind_outer(I, self, top, vs + ["n", "cond"])
    if is_for:
        stmt = SObj(ast.For, "forstmt")
        target = SObj(ast.Name, "i")
        target.fields["id"] = "i"
        it = SObj(ast.Call, "range")
        f = SObj(ast.Name, "rangefn")
        f.fields["id"] = "range"
        it.fields.update(func=f, args=[SObj(ast.Name, "n")], keywords=[])
        stmt.fields.update(target=target, iter=it)
    else:
        stmt = SObj(ast.While, "whilestmt")
        t = SObj(ast.Name, "condname")
        t.fields["id"] = "cond"
        stmt.fields.update(test=t)
        body_defs = list(body_defs)
    aliases = {}
    if len(body_defs) >= 2 and ctx.choose(2, "the body binds a second variable to the value of the first (`b = a`)") == 1:
        aliases[body_defs[1]] = body_defs[0]
    ctx.ghost["loop_alias"] = repr(sorted(aliases.items()))
    ctx.ghost["loop_alias_map"] = dict(aliases)
    body = [AbstractStmt(body_defs + ([] if is_for else ["cond"]), "body", aliases)]
    stmt.fields.update(body=body, lineno=1, col_offset=0)
    C = CM._conv_cls()
    I.models[C._translate_name_expr] = lambda interp, slf, node: interp.call(interp.getattr(slf, "_py_var_to_onnx_var"), [node.fields["id"], CM.real_info()])
    clo = I.closure_of(C._translate_loop_stmt)
    log = ctx.ghost["log"]
    try:
        I.run_closure(clo, [self, stmt], {})
    except PyRaise as e:
        return ("raised", e.exc), None
    ln = [n for n in log.nodes if n["op"] == "Loop"]
    return ("ok", ln, I, self), structure(log)


def s_loop(ctx, k=2):
    case = _loop_case(ctx, k)
    vs, body_defs, exposed, live, is_for = case
    S = sorted(set(body_defs) & (set(exposed) | set(live)))
    res, struct1 = run_loop(ctx, case)
    if res[0] == "raised":
        # a loop without loop-carried state is refused (the real _emit cannot create a node without outputs)
        ctx.check("C01.converter.loop.refuses_only_loops_without_state", not S, "C01: refused or translated faithfully")
        return
    _, ln, I, self = res
    ctx.cover("loop.translated." + ("for" if is_for else "while"))
    ok = len(ln) == 1
    ctx.check("C01.converter.loop.one_Loop_node", ok, CL_ALIGN)
    if not ok:
        return
    n = ln[0]
    body = n["attrs"][0][2]
    k = len(S)
    ok = len(n["inputs"]) == 2 + k and len(body.inputs) == 2 + k and len(body.outputs) == 1 + k and len(n["out_values"]) == k
    ctx.check("C01.converter.loop.arity_is_bound_cond_plus_state", ok, CL_ALIGN)
    if not ok:
        return
    scope = self.fields["_locals"][-1]
    pos = {}
    for var in S:
        sv = scope.get(var)
        val = sv.fields["value"] if isinstance(sv, SObj) else None
        idx = [i for i, o in enumerate(n["out_values"]) if o is val]
        pos[var] = idx[0] if idx else None
    ctx.check("C01.converter.loop.every_state_variable_bound_to_a_Loop_output",
              all(pos[v] is not None for v in S) and sorted(pos.values()) == list(range(k)), CL_ALIGN)
    if not all(pos[v] is not None for v in S):
        return
    # the four sequences
    in_vars = [var_of(v) for v in n["inputs"][2:]]
    par_vars = []
    # body parameter j stands for the variable it was bound to when the body was entered: recorded via candidates
    names = {nm: cand for nm, cand in ctx.ghost["log"].names}
    par_vars = [names.get(p.fields["name"]) for p in body.inputs[2:]]
    out_vars = [var_of(v) for v in body.outputs[1:]]
    am = ctx.ghost.get("loop_alias_map") or {}    # `b = a` in the body: b's next value may be a's value itself when a is not loop state
    aligned = all(in_vars[pos[v]] == v and par_vars[pos[v]] == v and out_vars[pos[v]] in (v, am.get(v, v)) for v in S)
    ctx.check("C01.converter.loop.inputs_parameters_body_outputs_and_Loop_outputs_aligned", aligned,
              CL_ALIGN + " — Loop inputs[2+k], body parameters[2+k], body outputs[1+k] and the name bound to Loop output k must be one variable")
    inside = all(o.fields["name"] in body.assigned_names for o in body.outputs)
    ctx.check("C02.converter.loop.body_outputs_produced_inside_the_body", inside, CL_SCOPE)
    ctx.check("C02.converter.loop.body_outputs_are_pairwise_distinct_values", len({id(o) for o in body.outputs}) == len(body.outputs),
              "C02: 'every emitted proto is well-formed' - the outputs of a graph are distinct names (two variables bound to one value need a copy) / "
              "C01: each Loop output carries the value of ITS variable")
    key = ("loop", repr(case), ctx.ghost.get("loop_alias"))
    canon = _CANON.setdefault(key, struct1)
    ctx.check("C14.converter.loop.translation_independent_of_set_iteration_order", struct1 == canon, CL_DET)


# ------------------------------------------------------------------ unique names ------------

def s_generate_unique_name(ctx):
    """B1: result ∉ old(_used_vars); _used_vars' = old ∪ {result}; loop invariant on the candidates tried."""
    from pyvc.core import PathEnd
    C = CM._conv_cls()

    def inv(interp, env, k, pre, it):
        slf = env.lookup("self")
        used = slf.fields["_used_vars"]
        return [("used_vars_unchanged", used.t == pre["used"]),
                ("nextvar_monotone", term(slf.fields["_nextvar"]) >= pre["next"])]

    def snapshot(interp, env, it):
        slf = env.lookup("self")
        return {"used": slf.fields["_used_vars"].t, "next": term(slf.fields["_nextvar"])}

    def heap_havoc(interp, env):
        slf = env.lookup("self")
        slf.fields["_nextvar"] = SInt(interp.ctx.int("nextvar"))
    loops = {("Converter._generate_unique_name", 0): LoopSpec({"r": lambda I: SStr(I.ctx.const("r", StrSort))}, inv,
                                                              heap_havoc=heap_havoc, snapshot=snapshot)}
    I = Interp(ctx, loops=loops)
    self = SObj(C, "converter")
    used0 = ctx.const("used", z3.SetSort(StrSort))
    self.fields.update(_used_vars=SSet(used0, "str"), _nextvar=SInt(ctx.int("nv0")))
    nv0 = term(self.fields["_nextvar"])
    cand = SStr(ctx.const("candidate", StrSort))
    clo = I.closure_of(C._generate_unique_name)
    r = I.run_closure(clo, [self, cand], {})
    ctx.check("C02.converter._generate_unique_name.result_not_used_before", z3.Not(z3.IsMember(term(r), used0)),
              "C02: 'every value name is defined exactly once'")
    ctx.check("C02.converter._generate_unique_name.result_recorded_as_used",
              self.fields["_used_vars"].t == z3.SetAdd(used0, term(r)), "C02: one namespace for all nested scopes")
    ctx.check("C02.converter._generate_unique_name.counter_monotone", term(self.fields["_nextvar"]) >= nv0, "C02")


F = lambda *q: [(REL, x) for x in q]

def _mk(fn, k):
    def run(ctx):
        return fn(ctx, k)
    return run


SCENARIOS = [sc for k in (1, 2, 3) for sc in [
    Scenario(f"C01.converter.if[{k} vars]", _mk(s_if, k), F("Converter._translate_if_stmt", "Converter._translate_block", "Converter._to_onnx_var",
                                         "Converter._emit_copy", "Converter._enter_scope", "Converter._exit_scope",
                                         "Converter._bind", "Converter._current_scope"),
             kind="bounded", bound="at most 3 variables assigned/live per if statement; every subset pattern, every iteration order of every set object",
             max_paths=200000, budget_s=1200),
    Scenario(f"C01.converter.loop[{k} vars]", _mk(s_loop, k), F("Converter._translate_loop_stmt", "Converter._py_var_to_onnx_var", "Converter._lookup"),
             kind="bounded", bound="at most 3 loop-carried candidates; every subset pattern, every iteration order of every set object",
             max_paths=200000, budget_s=1200),
]] + [
    Scenario("C02.converter._generate_unique_name", s_generate_unique_name, F("Converter._generate_unique_name")),
]


# ------------------------------------------------------------------ if with a script-time constant condition ---

def s_if_constant(ctx):
    """`if CONST:` — only the selected branch is translated, statement by statement and in order, as NESTED statements
    (index_of_stmt stays None: a `return` inside stays refused, the enclosing construct may be a loop), no If node."""
    from onnxscript._internal import converter as conv
    cc = ctx.choose(2, "constant condition value") == 0
    I, self, top, state = world(ctx, {"a"}, {"a"})
    state["cc"] = cc
    C = CM._conv_cls()
    calls = []
    body = [AbstractStmt(["a"], "then0"), AbstractStmt(["b"], "then1")]
    orelse = [AbstractStmt(["a"], "else0")] if ctx.choose(2, "else branch present") == 0 else []

    def m_translate_stmt(interp, slf, node, index_of_stmt=None):
        calls.append((node, index_of_stmt))
    I.models[C._translate_stmt] = m_translate_stmt
    stmt = SObj(ast.If, "ifstmt")
    stmt.fields.update(test=SObj(ast.Name, "test"), body=body, orelse=orelse, lineno=1, col_offset=0)
    log = ctx.ghost["log"]
    I.run_closure(I.closure_of(C._translate_if_stmt), [self, stmt], {})
    want = body if cc else orelse
    ctx.check("C01.converter.if.constant_condition_translates_exactly_the_selected_branch_in_order",
              [c[0] for c in calls] == want and not [n for n in log.nodes if n["op"] == "If"],
              "C01: 'the value every variable holds after an if/else ... is the value the same Python would give'")
    ctx.check("C02.converter.if.constant_condition_statements_stay_nested_statements", all(c[1] is None for c in calls),
              "C02: 'A program outside the supported subset is refused with a TranslationError/ValueError at decoration time' — a return inside an if "
              "stays a return inside control flow (the if may itself sit in a loop body)")


SCENARIOS.append(Scenario("C01.converter.if[constant condition]", s_if_constant, F("Converter._translate_if_stmt")))
