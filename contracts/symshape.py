"""Shapes of SYMBOLIC RANK (unbounded): an onnx_ir Shape stand-in whose `_dims` is a sequence of symbolic length.

Position p counts from the RIGHT (p = 0 is the innermost dim; numpy broadcasting is right-aligned), so facts about
"the dims that line up" are facts about equal p.  Every dim is described by uninterpreted functions of p:

    kind(p)  in {0: static int, 1: named symbolic dim, 2: unknown dim}
    ival(p)  the static extent when kind = 0          (>= 0)
    name(p)  the name when kind = 1
    rt(p)    the extent at run time                   (>= 0)

Annotation soundness (the assumption C09 states): kind 0 => rt = ival; kind 1 => rt = Rho(name); kind 2 => rt free.
Reading `shape[i]` forks on the kind, so on every path a dim IS an int (SInt) or a real onnx_ir SymbolicDim — the
code under contract sees the objects it sees in production; consistency between two reads of the same position comes
from the uninterpreted functions, not from caching.
"""
from __future__ import annotations

import z3

from pyvc.values import SObj, SInt, SStr, SSeq
from .irmodel import Rho


class SymShape:
    _n = [0]

    def __init__(self, interp, tag, rank=None, forward=False, data=False):
        import onnx_ir as ir
        SymShape._n[0] += 1
        u = f"{tag}!{SymShape._n[0]}"
        self.I = interp
        self.ctx = ctx = interp.ctx
        self.tag = tag
        self.rank = ctx.int("rank_" + tag) if rank is None else rank
        ctx.assume(self.rank >= 0)
        ctx.witness["rank_" + tag] = self.rank
        self.kind = z3.Function("kind_" + u, z3.IntSort(), z3.IntSort())
        self.ival = z3.Function("ival_" + u, z3.IntSort(), z3.IntSort())
        self.name = z3.Function("name_" + u, z3.IntSort(), z3.StringSort())
        self.rt = z3.Function("rt_" + u, z3.IntSort(), z3.IntSort())
        self._seen = set()
        # data=True: the entries of a 1-D INT64 tensor known through a Shape sym value (Inv_sym): a static entry is any integer,
        # a symbolic or unknown entry is a dimension, hence >= 0
        self.data = data
        sh = SObj(ir.Shape, "shape_" + tag)
        n = self.rank
        # forward=True: the functions are indexed by the position from the LEFT (used for lists a loop builds by append)
        self.seq = SSeq(n, (lambda i: self.dim_at(z3.simplify(i))) if forward else (lambda i: self.dim_at(z3.simplify(n - 1 - i))), name="dims_" + tag)
        sh.fields.update(_dims=self.seq, _frozen=False)
        self.obj = sh

    def facts(self, p):
        """soundness of the annotation at position p (from the right) — assumed once per distinct term"""
        k = p.get_id() if hasattr(p, "get_id") else p
        if k in self._seen:
            return
        self._seen.add(k)
        ctx = self.ctx
        kd = self.kind(p)
        ctx.assume(z3.And(kd >= 0, kd <= 2))
        ctx.assume(z3.Implies(kd != 0, self.rt(p) >= 0) if self.data else z3.And(self.rt(p) >= 0, self.ival(p) >= 0))
        ctx.assume(z3.Implies(kd == 0, self.rt(p) == self.ival(p)))
        ctx.assume(z3.Implies(kd == 1, self.rt(p) == Rho(self.name(p))))

    def dim_at(self, p):
        """the Python object the code reads at position p (forks on the kind)"""
        import onnx_ir as ir
        ctx = self.ctx
        if isinstance(p, int):
            p = z3.IntVal(p)
        self.facts(p)
        if ctx.branch(self.kind(p) == 0):
            return SInt(self.ival(p))
        if ctx.branch(self.kind(p) == 1):
            d = SObj(ir.SymbolicDim, "symdim")
            d.fields.update(_value=SStr(self.name(p)), _expr_cache=None)
            return d
        return ir.SymbolicDim(None)

    # ---- runtime reading, right-aligned, out-of-rank positions read 1 (numpy broadcasting) ----
    def rt_or_1(self, p):
        self.facts(p)
        return z3.If(p < self.rank, self.rt(p), z3.IntVal(1))

    def same_static(self, other, p):
        """spec of 'statically the same dim' at position p for two shapes (both in rank): same kind, not unknown,
        equal value"""
        a, b = self, other
        return z3.And(a.kind(p) == b.kind(p), a.kind(p) != 2,
                      z3.If(a.kind(p) == 0, a.ival(p) == b.ival(p), a.name(p) == b.name(p)))


def bc(a, b):
    """numpy broadcast of two runtime extents: (valid, result)"""
    return z3.Or(a == b, a == 1, b == 1), z3.If(a == 1, b, a)


def describe(d):
    """(kind, ival, name) terms of a dim object the code produced: int / SInt / onnx_ir SymbolicDim (real or stand-in)"""
    import onnx_ir as ir
    if isinstance(d, bool):
        raise AssertionError("bool as a dim")
    if isinstance(d, int):
        return z3.IntVal(0), z3.IntVal(d), z3.StringVal("")
    if isinstance(d, SInt):
        return z3.IntVal(0), d.t, z3.StringVal("")
    v = d.fields.get("_value") if isinstance(d, SObj) else d.value
    if v is None:
        return z3.IntVal(2), z3.IntVal(0), z3.StringVal("")
    return z3.IntVal(1), z3.IntVal(0), (v.t if isinstance(v, SStr) else z3.StringVal(v))


def denotes(desc, value):
    """a (sound) static dim descriptor denotes the run-time extent `value` under the binding of the names"""
    k, iv, nm = desc
    return z3.And(z3.Implies(k == 0, iv == value), z3.Implies(k == 1, Rho(nm) == value))


def built_list_desc(S, lst, i):
    """descriptor of element i of a list that a loop builds by `append` on top of the havocked prefix S (no forking)"""
    desc = (S.kind(i), S.ival(i), S.name(i))
    for old_len, x in getattr(lst, "appended", []):
        dx = describe(x)
        desc = tuple(z3.If(i == old_len, a, b) for a, b in zip(dx, desc))
    return desc
