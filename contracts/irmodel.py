"""Symbolic stand-ins for onnx_ir values/nodes used by the optimizer and rule contracts (C03/C04/C05/C09).

A value carries its *static* annotations (what the optimizer may read: shape with int / named / unknown dims,
dtype, const_value) and ghost *runtime* facts (the actual dims under the binding ρ of symbolic names).
Annotation soundness (assumed, stated in C09): a static int dim equals the runtime dim; a dim named N equals
Rho("N"); an unknown dim is unconstrained (>= 0).  onnx_ir's own Shape / SymbolicDim classes are interpreted
from their real source (they are pure Python), so `shape[a:b]`, `len(shape)`, `shape.dims == ...` run as in
production.
"""
from __future__ import annotations

import z3

from pyvc.values import SObj, SInt, SBool, Opaque, term, wrap

Rho = z3.Function("Rho", z3.StringSort(), z3.IntSort())


import numpy as _np


class NArr:
    """A small constant array (what `const_value.numpy()` returns), possibly holding symbolic ints."""
    _pyvc_claims = (_np.ndarray,)

    def __init__(self, items, dtype, ndim=1):
        self.items = list(items)
        self.dtype = dtype
        self.ndim = ndim
        self.size = len(self.items)
        self.shape = tuple([len(self.items)] if ndim == 1 else [] if ndim == 0 else [1] * (ndim - 1) + [len(self.items)])

    def tolist(self):
        return list(self.items) if self.ndim >= 1 else self.items[0]

    def item(self, *a):
        return self.items[a[0] if a else 0]

    def view(self, *_a):
        return self

    def reshape(self, *shape):
        if shape in ((-1,), ((-1,),)):
            return NArr(self.items, self.dtype, 1)
        raise TypeError("reshape not modelled")

    def __iter__(self):
        return iter(list(self.items))

    def __len__(self):
        return len(self.items)


for _n in ("tolist", "item", "view", "reshape", "__iter__", "__len__"):
    getattr(NArr, _n)._pyvc_native = True


class AttrDict(dict):
    """node.attributes: a dict[str, Attr] with onnx_ir's typed accessors (onnx_ir.Attributes.get_int/get_float/...:
    'the attribute's value if present, else the default' — a dependency, modelled)."""

    def _val(self, key, default, meth):
        if key in self:
            a = self[key]
            return a.fields["value"] if isinstance(a, SObj) else getattr(a, meth)()
        return default

    def get_int(self, key, default=None):
        return self._val(key, default, "as_int")

    def get_float(self, key, default=None):
        return self._val(key, default, "as_float")

    def get_ints(self, key, default=None):
        return self._val(key, default, "as_ints")

    def get_floats(self, key, default=None):
        return self._val(key, default, "as_floats")

    def get_string(self, key, default=None):
        return self._val(key, default, "as_string")

    def get_tensor(self, key, default=None):
        return self._val(key, default, "as_tensor")

    def get_graph(self, key, default=None):
        return self._val(key, default, "as_graph")

    def copy(self):
        return AttrDict(self)

    def add(self, attr):
        """onnx_ir.Attributes.add: store under the attribute's name (replacing one of the same name)"""
        self[attr.fields["name"] if isinstance(attr, SObj) else attr.name] = attr


for _n in ("get_int", "get_float", "get_ints", "get_floats", "get_string", "get_tensor", "get_graph", "_val", "copy", "add"):
    getattr(AttrDict, _n)._pyvc_native = True


class World:
    def __init__(self, interp):
        import onnx_ir as ir
        self.I = interp
        self.ir = ir
        self.ctx = interp.ctx
        self.values = []

    # ---- dims ------------------------------------------------------------------------------
    def dim(self, kind, tag, nonneg=True):
        """kind: 'int' (symbolic int, non-negative when it is a tensor dimension), 'N'/'M' (named), 'unknown'.
        returns (static, runtime term)"""
        ctx = self.ctx
        if kind == "int":
            t = ctx.int("dim_" + tag)
            if nonneg:
                ctx.assume(t >= 0)
            ctx.witness["dim_" + tag] = t
            return SInt(t), t
        if kind == "unknown":
            t = ctx.int("rt_" + tag)
            ctx.assume(t >= 0)
            return self.ir.SymbolicDim(None), t
        ctx.assume(Rho(z3.StringVal(kind)) >= 0)
        return kind, Rho(z3.StringVal(kind))

    def shape(self, dims):
        """dims: list of static dims (python int | SInt | str | SymbolicDim) -> onnx_ir Shape (real or interpreted)"""
        return self.I.call(self.ir.Shape, [list(dims)])

    def mean(self, d):
        """Meaning of a static dim under ρ."""
        ir = self.ir
        if isinstance(d, bool):
            raise AssertionError
        if isinstance(d, int):
            return z3.IntVal(d)
        if isinstance(d, SInt):
            return d.t
        if isinstance(d, str):  # a named dim given by its name (static spec before ir.Shape wraps it)
            return Rho(z3.StringVal(d))
        v = d.fields.get("_value") if isinstance(d, SObj) else getattr(d, "value", None)
        if isinstance(d, (ir.SymbolicDim, SObj)):
            if v is None:
                return None
            if isinstance(v, str):
                return Rho(z3.StringVal(v))
            return Rho(term(v))
        raise AssertionError(f"unexpected dim {d!r}")

    def dims_of(self, shape):
        if shape is None:
            return None
        if isinstance(shape, SObj):
            return list(shape.fields["_dims"])
        return list(shape.dims)

    # ---- values ----------------------------------------------------------------------------
    def value(self, name, dims=None, rt=None, dtype=None, const=None, graph_input=False, initializer=False,
              graph_output=False, n_uses=1):
        ir = self.ir
        I = self.I
        v = SObj(ir.Value, name)
        tp = None
        if dtype is not None:
            tp = SObj(ir.TensorType, "type")
            tp.fields["dtype"] = dtype
        v.fields.update(name=name, shape=(self.shape(dims) if dims is not None else None), type=tp, dtype=dtype,
                        const_value=const, meta={}, metadata_props={})
        v.rt_shape = rt
        flags = {"is_graph_input": graph_input, "is_initializer": initializer, "is_graph_output": graph_output}
        for nm, val in flags.items():
            def f():
                raise AssertionError
            I.models[f] = (lambda val: lambda interp: val)(val)
            v.fields[nm] = f

        def uses():
            raise AssertionError
        I.models[uses] = lambda interp: [("consumer", 0)] * n_uses
        v.fields["uses"] = uses
        v.fields["consumers"] = uses
        self.values.append(v)
        return v

    def tensor(self, items, dtype, ndim=1):
        """constant tensor stand-in whose .numpy() is an NArr of `items`"""
        ir = self.ir
        t = SObj(ir.Tensor, "tensor")
        arr = NArr(items, dtype.numpy() if hasattr(dtype, "numpy") and dtype != ir.DataType.BOOL else (bool if dtype == ir.DataType.BOOL else None), ndim)

        def numpy_():
            raise AssertionError
        self.I.models[numpy_] = lambda interp: arr
        t.fields.update(dtype=dtype, size=len(items), numpy=numpy_, shape=arr.shape, name="t")
        t.arr = arr
        return t

    def node(self, op_type, inputs, outputs=1, attrs=None, domain="", version=None):
        ir = self.ir
        n = SObj(ir.Node, "node_" + op_type)
        ad = {}
        for k, val in (attrs or {}).items():
            a = SObj(ir.Attr, "attr_" + k)
            a.fields.update(name=k, value=val, type=None)
            ad[k] = a
        outs = [self.value(f"{op_type}_out{i}") for i in range(outputs)] if isinstance(outputs, int) else list(outputs)
        n.fields.update(op_type=op_type, domain=domain, inputs=list(inputs), outputs=outs, attributes=AttrDict(ad), name="n_" + op_type,
                        version=version, graph=None, meta={}, metadata_props={})
        return n


class OpRecorder:
    """The `op` builder handed to evaluators / rewrite functions: records the calls."""

    def __init__(self, world=None):
        self.calls = []
        self.world = world

    def __getattr__(self, name):
        if name.startswith("__"):
            raise AttributeError(name)

        def f(*args, **kwargs):
            tok = Call(name, args, kwargs)
            self.calls.append(tok)
            outs = kwargs.get("_outputs")
            if isinstance(outs, int) and outs != 1:
                return tuple(OutRef(tok, i) for i in range(outs))
            if isinstance(outs, (list, tuple)) and len(outs) != 1:
                return tuple(OutRef(tok, i) for i in range(len(outs)))
            return tok
        f._pyvc_native = True
        return f


def _value_cls():
    import onnx_ir as ir
    return (ir.Value,)


class OutRef:
    """i-th output of a recorded multi-output call"""
    _pyvc_claims = _value_cls()

    def __init__(self, call, index):
        self.call = call
        self.index = index
        self.name = f"{call.op}_result{index}"

    def __repr__(self):
        return f"<{self.call.op}#{self.index}>"


class Call:
    _pyvc_claims = _value_cls()

    def __init__(self, op, args, kwargs):
        self.op = op
        self.args = args
        self.kwargs = kwargs
        self.name = f"{op}_result"

    def __repr__(self):
        return f"<{self.op}{self.args!r}{self.kwargs!r}>"
