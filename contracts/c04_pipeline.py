"""C04 — the optimizer pipeline (optimizer/_optimizer.py optimize_ir) restores the model invariants its passes may break.

The passes themselves are dependencies (onnx_ir.passes.common) or have their own contracts (FoldConstantsPass: c03/c04,
RewritePass: c07).  What optimize_ir owns is their ORDER.  Each pass is given an effect on two model invariants
(assumed contracts of the dependencies, listed under `trusted`):

  unique   every value name is defined once across the graph and its subgraphs
  outputs  no graph output is a graph input / an initializer / listed twice (the forms OutputFixPass repairs)

  pass                                         unique        outputs
  InlinePass                                   keeps         keeps      (names inlined values apart itself)
  PassManager[Fold, Rewrite, RemoveUnused*]    keeps         may break  (folding / rewriting can alias an output to an input)
  RemoveUnusedNodes/Functions/Opsets           keeps         keeps
  LiftConstantsToInitializersPass              keeps         may break  (an output produced by a Constant becomes an initializer)
  LiftSubgraphInitializersToMainGraphPass      MAY BREAK     keeps      (sibling subgraphs may reuse a name; in the main graph they collide)
  DeduplicateInitializersPass                  keeps         may break
  CommonSubexpressionEliminationPass           keeps         may break  (two outputs can become the same value)
  OutputFixPass                                may break     ESTABLISHES (inserts Identity nodes with new names)
  NameFixPass                                  ESTABLISHES   keeps

Post of optimize_ir, for every option value: both invariants hold after the last pass; InlinePass, when requested, runs
first (the other passes do not look into functions).
"""
from __future__ import annotations

from pyvc.harness import Scenario
from pyvc.interp import Interp, PyRaise
from .protomodel import World, FIELDS
from .c15_wrappers import sym_options

SCENARIOS = []
OPT = "onnxscript/optimizer/_optimizer.py"
CL = "C04: 'the result passes onnx.checker ... graph inputs, outputs ... value names stay unique'"

EFFECT = {  # name -> (unique, outputs): "keeps" | "breaks" | "establishes"
    "InlinePass": ("keeps", "keeps"),
    "PassManager": ("keeps", "breaks"),
    "FoldConstantsPass": ("keeps", "breaks"),
    "RewritePass": ("keeps", "breaks"),
    "RemoveUnusedNodesPass": ("keeps", "keeps"),
    "RemoveUnusedFunctionsPass": ("keeps", "keeps"),
    "RemoveUnusedOpsetsPass": ("keeps", "keeps"),
    "LiftConstantsToInitializersPass": ("keeps", "breaks"),
    "LiftSubgraphInitializersToMainGraphPass": ("breaks", "keeps"),
    "DeduplicateInitializersPass": ("keeps", "breaks"),
    "CommonSubexpressionEliminationPass": ("keeps", "breaks"),
    "OutputFixPass": ("breaks", "establishes"),
    "NameFixPass": ("establishes", "keeps"),
}


def s_optimize_pipeline(ctx):
    from onnxscript.optimizer import _optimizer
    I = Interp(ctx)
    W = World(I)
    model = W.new_ir_model({f: ("orig", f) for f in FIELDS})
    opts = sym_options(ctx, "optimizer.optimize")
    inline = I.truth(opts["inline"])  # forks: both values explored
    opts = dict(opts)
    opts["inline"] = inline
    try:
        I.call(_optimizer.optimize_ir, [model], opts)
    except PyRaise as e:
        ctx.check("C04.optimize_ir.never_raises_for_any_option_value", False, CL)
        return
    runs = [d for (mid, d) in W.log if mid == id(model)]
    ok = len(runs) == 1 and runs[0][0] == "Sequential"
    ctx.check("C04.optimize_ir.runs_one_sequential_pipeline_on_the_given_model", ok, CL)
    if not ok:
        return
    seq = [d[0] for d in runs[0][1]]
    ctx.note("pipeline: " + " > ".join(seq))
    unknown = [n for n in seq if n not in EFFECT]
    ctx.check("C04.optimize_ir.every_pass_of_the_pipeline_has_a_stated_effect", not unknown,
              CL + " — a pass without a stated effect on the invariants cannot be sequenced")
    if unknown:
        return
    state = {"unique": True, "outputs": True}  # the input model is valid
    for n in seq:
        for inv, eff in zip(("unique", "outputs"), EFFECT[n]):
            if eff == "breaks":
                state[inv] = False
            elif eff == "establishes":
                state[inv] = True
    ctx.check("C04.optimize_ir.value_names_are_unique_after_the_last_pass", state["unique"],
              CL + " — lifting subgraph initializers and fixing outputs introduce names; a NameFixPass must follow them")
    ctx.check("C04.optimize_ir.graph_outputs_are_repaired_after_the_last_pass_that_can_alias_them", state["outputs"],
              CL + " — folding, rewriting, CSE and lifting can turn an output into an input / initializer / duplicate")
    ctx.check("C04.optimize_ir.functions_are_inlined_first_iff_requested", (seq[0] == "InlinePass") == bool(inline) and seq.count("InlinePass") == int(bool(inline)), CL)
    # the iterated part: folding and rewriting, followed by the cleanup they rely on
    pm = [d for d in runs[0][1] if d[0] == "PassManager"]
    okpm = len(pm) == 1 and [x[0] for x in pm[0][1]][:2] == ["FoldConstantsPass", "RewritePass"] and "RemoveUnusedNodesPass" in [x[0] for x in pm[0][1]]
    ctx.check("C04.optimize_ir.iterated_stage_folds_then_rewrites_then_removes_unused_nodes", okpm, CL)


SCENARIOS.append(Scenario("C04.optimize_ir.pipeline", s_optimize_pipeline, [(OPT, "optimize_ir")],
                          trusted=["effects of the onnx_ir.passes.common passes on name uniqueness and on graph outputs (table in the module docstring)"]))
