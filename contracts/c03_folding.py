"""C03 / C04 / C09 — partial evaluators of optimizer/_constant_folding.py.

Each registered partial evaluator is executed from its real source on symbolic values (contracts/irmodel.py)
and checked against the contract "whatever it returns or records is true of the original node for EVERY
runtime binding ρ of the symbolic dims consistent with the static facts":

  C09/C03  reshape, expand   -> Identity only if the target equals the input's runtime shape under every ρ
           abs               -> Identity only if every element is >= 0 under every ρ (needs Inv_sym)
           add               -> the recorded sum is exact; must keep Inv_sym (symbolic entries >= 0)
           gather/shape/size/cast/cast_like/concat/sequence_at -> exactness of constants, indices, dtypes
  C04      no evaluator raises on a valid node (exception freedom of the code in /repo);
           values that are graph inputs (overridable initializers) are never read as constants:
           _get_numpy_value / _get_bool_value / OptimizerState.get_shape_value
Inv_sym: a Shape sym value of X means X is a 1-D INT64 tensor whose i-th element equals the i-th dim under
every ρ, and every symbolic entry is >= 0.
Driver bound: ranks <= 2 and at most 2 elements per shape-like tensor; all integer values unbounded.
"""
from __future__ import annotations

import itertools

import z3

from pyvc.harness import Scenario
from pyvc.interp import Interp, PyRaise
from pyvc.values import SObj, SInt, SBool, Opaque, term, wrap
from .irmodel import World, OpRecorder, Call, NArr, Rho

REL = "onnxscript/optimizer/_constant_folding.py"
CL09 = "C09: 'every simplification the optimizer derives from shape information ... stays correct for every concrete input shape the original model accepts'"
CL04 = "C04: 'optimize, rewrite and fold_constants return without raising'"
CL04G = "C04: 'initializers that are also graph inputs - defaults the caller may override - are never folded into constants'"
KINDS = ["int", "N", "M", "unknown"]


def _cf():
    from onnxscript.optimizer import _constant_folding
    return _constant_folding


def new_state(I):
    return I.instantiate(_cf().OptimizerState, [], {})


def choose_shape(ctx, W, tag, max_rank=2, kinds=KINDS, allow_none=True):
    """-> (static dims list | None, runtime dim terms list)"""
    opts = ([None] if allow_none else []) + list(range(max_rank + 1))
    r = opts[ctx.choose(len(opts), f"rank of {tag}")]
    if r is None:
        rt_rank = ctx.choose(max_rank + 1, f"runtime rank of {tag}")
        rts = []
        for i in range(rt_rank):
            t = ctx.int(f"rt_{tag}{i}")
            ctx.assume(t >= 0)
            rts.append(t)
        return None, rts
    static, rt = [], []
    for i in range(r):
        k = kinds[ctx.choose(len(kinds), f"kind of {tag}[{i}]")]
        s, t = W.dim(k, f"{tag}{i}")
        static.append(s)
        rt.append(t)
    return static, rt


def shape_like_value(ctx, W, I, state, tag, max_len=2, allow_negative=True):
    """A 1-D INT64 tensor holding shape-like data, known to the optimizer either as a constant or through a
    Shape sym value (Inv_sym assumed), or not at all.  -> (value, runtime element terms | None, how)"""
    import onnx_ir as ir
    how = ["const", "sym", "unknown"][ctx.choose(3, f"{tag} known as")]
    n = ctx.choose(max_len + 1, f"len of {tag}")
    if how == "const":
        items = []
        for i in range(n):
            t = ctx.int(f"{tag}{i}")
            if not allow_negative:
                ctx.assume(t >= 0)
            ctx.witness[f"{tag}{i}"] = t
            items.append(SInt(t))
        v = W.value(tag, dims=[n], rt=[z3.IntVal(n)], dtype=ir.DataType.INT64, const=W.tensor(items, ir.DataType.INT64), initializer=True)
        return v, [x.t for x in items], how
    if how == "sym":
        static, elems = [], []
        for i in range(n):
            # a Shape sym value may carry unknown entries (the Shape evaluator records the input's dims as they are)
            k = ["int", "N", "M", "unknown"][ctx.choose(4, f"kind of {tag}[{i}]")]
            # Inv_sym: symbolic (named) entries are >= 0; static integer entries may be any integer
            s, t = W.dim(k, f"{tag}{i}", nonneg=not allow_negative)
            static.append(s)
            elems.append(t)
        v = W.value(tag, dims=[n], rt=[z3.IntVal(n)], dtype=ir.DataType.INT64)
        I.call(I.getattr(state, "set_sym_value"), [v, W.shape(static)])
        return v, elems, how
    v = W.value(tag, dims=[n], rt=[z3.IntVal(n)], dtype=ir.DataType.INT64)
    return v, None, how


def run_eval(I, fn, node, op, state):
    clo = I.closure_of(fn)
    return I.run_closure(clo, [node, op, state], {})


def is_identity_of(r, x):
    return isinstance(r, Call) and r.op == "Identity" and len(r.args) == 1 and r.args[0] is x


# ------------------------------------------------------------------ reshape / expand -----------

def s_reshape_expand(ctx, which):
    import onnx_ir as ir
    I = Interp(ctx)
    W = World(I)
    state = new_state(I)
    static, rt = choose_shape(ctx, W, "x")
    x = W.value("x", dims=static, rt=rt, dtype=ir.DataType.FLOAT)
    s, elems, how = shape_like_value(ctx, W, I, state, "target", allow_negative=True)
    node = W.node(which, [x, s])
    op = OpRecorder()
    try:
        r = run_eval(I, getattr(_cf(), which.lower()), node, op, state)
    except PyRaise as e:
        ctx.check(f"C04.folding.{which.lower()}.never_raises", False, CL04)
        return
    if r is None:
        ctx.cover(f"{which}.kept")
        return
    ok = is_identity_of(r, x)
    ctx.check(f"C03.folding.{which.lower()}.replacement_is_identity_of_the_input", ok, CL09)
    if not ok:
        return
    ctx.cover(f"{which}.identity.{how}")
    # Identity is correct iff the runtime target equals the runtime shape of x, for every ρ
    same = z3.And(z3.BoolVal(elems is not None and len(elems) == len(rt)), *[a == b for a, b in zip(elems or [], rt)])
    if which == "Expand":
        # Expand broadcasts: output shape = broadcast(x.shape, target); Identity is right iff that equals x.shape
        n = max(len(rt), len(elems or []))
        xs = [z3.IntVal(1)] * (n - len(rt)) + list(rt)
        ts = [z3.IntVal(1)] * (n - len(elems or [])) + list(elems or [])
        out = [z3.If(a == 1, b, a) for a, b in zip(xs, ts)]
        valid = z3.And(*[z3.Or(a == b, a == 1, b == 1) for a, b in zip(xs, ts)]) if n else z3.BoolVal(True)
        same = z3.And(z3.BoolVal(elems is not None and n == len(rt)), valid, *[o == a for o, a in zip(out, xs)])
    ctx.check(f"C09.folding.{which.lower()}.identity_only_if_target_equals_runtime_shape_for_every_binding", same, CL09)


# ------------------------------------------------------------------ abs / add -------------------

def s_abs(ctx):
    I = Interp(ctx)
    W = World(I)
    state = new_state(I)
    x, elems, how = shape_like_value(ctx, W, I, state, "x")
    node = W.node("Abs", [x])
    op = OpRecorder()
    r = run_eval(I, _cf().abs, node, op, state)
    if r is None:
        return
    ok = is_identity_of(r, x)
    ctx.check("C03.folding.abs.replacement_is_identity_of_the_input", ok, CL09)
    if ok:
        ctx.cover("abs.identity." + how)
        ctx.check("C09.folding.abs.identity_only_if_every_element_nonnegative_for_every_binding",
                  z3.And(z3.BoolVal(elems is not None), *[e >= 0 for e in (elems or [])]), CL09)


def s_add(ctx):
    """add: the sym value recorded for the output must denote the elementwise sum AND keep Inv_sym (a symbolic
    entry is assumed non-negative by abs and friends)."""
    import onnx_ir as ir
    I = Interp(ctx)
    W = World(I)
    state = new_state(I)
    a, ea, ha = shape_like_value(ctx, W, I, state, "a", max_len=1)
    b, eb, hb = shape_like_value(ctx, W, I, state, "b", max_len=1)
    node = W.node("Add", [a, b])
    op = OpRecorder()
    try:
        r = run_eval(I, _cf().add, node, op, state)
    except PyRaise as e:
        ctx.check("C04.folding.add.never_raises", False, CL04)
        return
    out = node.fields["outputs"][0]
    sv = I.call(I.getattr(state, "get_sym_value"), [out])
    ctx.check("C03.folding.add.returns_no_replacement", r is None, CL09)
    if sv is None:
        return
    ctx.cover("add.recorded")
    dims = W.dims_of(sv)
    ok = len(dims) == 1 and ea is not None and eb is not None and len(ea) == 1 and len(eb) == 1
    ctx.check("C09.folding.add.records_a_value_only_for_two_known_single_element_operands", ok, CL09)
    if not ok:
        return
    d = dims[0]
    total = ea[0] + eb[0]
    if isinstance(d, (int, SInt)):
        ctx.check("C09.folding.add.recorded_constant_is_the_sum", term(d) == total, CL09)
    else:
        # a symbolic entry: by Inv_sym every symbolic entry is >= 0 under every binding
        ctx.check("C09.folding.add.symbolic_result_keeps_the_nonnegativity_invariant", total >= 0,
                  "C09: 'treating Shape/Size/Gather/Concat/Reshape/Expand/Slice/Abs/Cast chains as known' — Abs is dropped on symbolic entries because they are assumed >= 0; a sum with a negative constant is not")


# ------------------------------------------------------------------ gather ----------------------

def s_gather(ctx):
    import onnx_ir as ir
    I = Interp(ctx)
    W = World(I)
    state = new_state(I)
    x, elems, how = shape_like_value(ctx, W, I, state, "x")
    n_idx = ctx.choose(3, "number of indices")
    idx_items = []
    for i in range(n_idx):
        t = ctx.int(f"index{i}")
        ctx.witness[f"index{i}"] = t
        idx_items.append(SInt(t))
    idx_known = ctx.choose(2, "indices constant") == 0
    idx_ndim = [1, 0, 2][ctx.choose(3, "rank of the indices tensor")] if (idx_known and n_idx == 1) else 1
    idx = W.value("indices", dims=[n_idx], rt=[z3.IntVal(n_idx)], dtype=ir.DataType.INT64,
                  const=(W.tensor(idx_items, ir.DataType.INT64, ndim=idx_ndim) if idx_known else None), initializer=idx_known)
    axis = [None, 0, 1][ctx.choose(3, "axis attribute")]
    node = W.node("Gather", [x, idx], attrs=({} if axis is None else {"axis": axis}))
    op = OpRecorder()
    n = len(elems) if elems is not None else 0
    in_range = z3.And(*[z3.And(t.t >= -n, t.t < n) for t in idx_items]) if idx_items else z3.BoolVal(True)
    try:
        r = run_eval(I, _cf().gather, node, op, state)
    except PyRaise as e:
        # an out-of-range index is a run-time error of the model only if the node executes; the optimizer must not raise
        ctx.check("C04.folding.gather.never_raises.even_for_out_of_range_indices", False, CL04)
        return
    out = node.fields["outputs"][0]
    sv = I.call(I.getattr(state, "get_sym_value"), [out])
    if sv is not None:
        ctx.cover("gather.recorded")
        dims = W.dims_of(sv)
        ok = elems is not None and idx_known and axis == 0 and len(dims) == n_idx and idx_ndim == 1
        ctx.check("C09.folding.gather.records_only_axis0_gather_of_known_shape_with_constant_1d_indices", ok,
                  CL09 + " — Gather with a 0-d index yields a 0-d result, with 2-d indices a 2-d one: only 1-d indices give a shape-like 1-d value")
        if ok:
            for j, d in enumerate(dims):
                k = idx_items[j].t
                picked = None
                for pos in range(-n, n):
                    e = elems[pos]
                    picked = z3.If(k == pos, e, picked) if picked is not None else e
                m = W.mean(d)
                if m is None:
                    continue  # an unknown entry claims nothing
                ctx.check("C09.folding.gather.recorded_element_is_the_indexed_element", z3.Implies(in_range, m == picked), CL09)
    if r is not None:
        okc = isinstance(r, Call) and r.op == "Constant" and sv is not None and idx_ndim == 1
        ctx.check("C09.folding.gather.constant_only_when_all_gathered_entries_are_ints", okc and
                  all(isinstance(d, (int, SInt)) for d in W.dims_of(sv)), CL09)


# ------------------------------------------------------------------ shape / size ----------------

def s_shape_size(ctx):
    import onnx_ir as ir
    I = Interp(ctx)
    W = World(I)
    state = new_state(I)
    static, rt = choose_shape(ctx, W, "x")
    x = W.value("x", dims=static, rt=rt, dtype=ir.DataType.FLOAT)
    start = [None, 0, 1, -1][ctx.choose(4, "start")]
    end = [None, 1, -1, 5][ctx.choose(4, "end")]
    attrs = {}
    if start is not None:
        attrs["start"] = start
    if end is not None:
        attrs["end"] = end
    node = W.node("Shape", [x], attrs=attrs)
    op = OpRecorder()
    r = run_eval(I, _cf().shape, node, op, state)
    out = node.fields["outputs"][0]
    sv = I.call(I.getattr(state, "get_sym_value"), [out])
    # ONNX Shape(start, end): slice of the dims with clamping = Python slice semantics
    want = list(range(len(rt)))[slice(start, end)]
    if sv is not None:
        dims = W.dims_of(sv)
        ok = static is not None and len(dims) == len(want)
        ctx.check("C09.folding.shape.recorded_slice_has_the_documented_extent", ok, CL09)
        if ok:
            for d, i in zip(dims, want):
                m = W.mean(d)
                if m is None:
                    continue  # an unknown dim stays unknown: no claim is recorded
                ctx.check("C09.folding.shape.recorded_entry_is_the_runtime_dim_for_every_binding", m == rt[i], CL09)
    if r is not None:
        ok = isinstance(r, Call) and r.op == "Constant" and sv is not None and all(isinstance(d, (int, SInt)) for d in W.dims_of(sv))
        ctx.check("C09.folding.shape.constant_only_when_every_entry_is_static", ok, CL09)
        if ok:
            vi = r.kwargs.get("value_ints")
            items = I.getattr(vi, "value") if vi is not None else None
            try:
                items = list(items) if items is not None else None
            except TypeError:
                items = None
            okv = items is not None and len(items) == len(want) and set(r.kwargs) == {"value_ints"} and not r.args
            ctx.check("C09.folding.shape.constant_lists_exactly_the_selected_dims", okv, CL09)
            if okv:
                for it, i in zip(items, want):
                    ctx.check("C09.folding.shape.constant_entry_is_the_runtime_dim_for_every_binding", term(it) == rt[i], CL09)
    # Size
    node2 = W.node("Size", [x])
    op2 = OpRecorder()
    r2 = run_eval(I, _cf().size, node2, op2, state)
    if r2 is not None:
        okc = isinstance(r2, Call) and r2.op == "Constant" and static is not None and all(isinstance(d, (int, SInt)) for d in static)
        ctx.check("C09.folding.size.constant_only_when_every_dim_is_static", okc, CL09)
        if okc:
            prod = z3.IntVal(1)
            for t in rt:
                prod = prod * t
            ctx.check("C09.folding.size.constant_is_the_product_of_the_dims", term(r2.kwargs["value_int"]) == prod, CL09)


# ------------------------------------------------------------------ cast / cast_like ------------

def s_cast(ctx):
    import onnx_ir as ir
    I = Interp(ctx)
    W = World(I)
    state = new_state(I)
    dts = [None, ir.DataType.FLOAT, ir.DataType.INT64, ir.DataType.BOOL]
    din = dts[ctx.choose(4, "input dtype")]
    x = W.value("x", dims=None, rt=[], dtype=din)
    to = [None, ir.DataType.FLOAT.value, ir.DataType.INT64.value][ctx.choose(3, "to")]
    node = W.node("Cast", [x], attrs=({} if to is None else {"to": to}))
    I.models[ir.TensorType] = lambda interp, dt: ("TensorType", dt)
    r = run_eval(I, _cf().cast, node, OpRecorder(), state)
    if r is not None:
        ctx.check("C03.folding.cast.identity_only_for_same_element_type", is_identity_of(r, x) and din is not None and to == din.value, "C03: 'the same element types'")
    # CastLike
    dlike = dts[ctx.choose(4, "like dtype")]
    y = W.value("like", dims=None, rt=[], dtype=dlike)
    node2 = W.node("CastLike", [x, y])
    r2 = run_eval(I, _cf().cast_like, node2, OpRecorder(), state)
    if r2 is None:
        ctx.check("C03.folding.cast_like.kept_only_when_target_type_unknown", dlike is None, "C03")
    elif r2.op == "Identity":
        ctx.check("C03.folding.cast_like.identity_only_for_same_known_type", r2.args[0] is x and din is not None and din == dlike, "C03: 'the same element types'")
    else:
        ctx.check("C03.folding.cast_like.otherwise_cast_to_the_type_of_the_second_input",
                  r2.op == "Cast" and r2.args[0] is x and r2.kwargs.get("to") == dlike.value, "C03")


# ------------------------------------------------------------------ constants & graph inputs ----

def s_graph_input_guard(ctx):
    """A value that is a graph input (an initializer the caller may override) must never be read as a constant."""
    import onnx_ir as ir
    I = Interp(ctx)
    W = World(I)
    state = new_state(I)
    is_input = ctx.choose(2, "initializer is also a graph input") == 1
    kind = ctx.choose(2, "int64 shape-like or bool")
    if kind == 0:
        t = W.tensor([SInt(ctx.int("e0")), SInt(ctx.int("e1"))], ir.DataType.INT64)
        v = W.value("init", dims=[2], rt=[z3.IntVal(2)], dtype=ir.DataType.INT64, const=t, initializer=True, graph_input=is_input)
    else:
        t = W.tensor([True], ir.DataType.BOOL)
        v = W.value("init", dims=[1], rt=[z3.IntVal(1)], dtype=ir.DataType.BOOL, const=t, initializer=True, graph_input=is_input)
    cf = _cf()
    r1 = I.run_closure(I.closure_of(cf._get_numpy_value), [v], {})
    r2 = I.run_closure(I.closure_of(cf._get_bool_value), [v], {})
    r3 = I.call(I.getattr(state, "get_shape_value"), [v])
    if is_input:
        ctx.check("C04.folding.get_numpy_value.none_for_graph_inputs", r1 is None, CL04G)
        ctx.check("C04.folding.get_bool_value.none_for_graph_inputs", r2 is None, CL04G)
        ctx.check("C04.folding.get_shape_value.none_for_graph_inputs", r3 is None, CL04G)
    else:
        ctx.check("C03.folding.get_numpy_value.returns_the_constant_of_a_plain_initializer", r1 is t.arr, "C03")
        if kind == 0:
            ctx.check("C03.folding.get_shape_value.reads_int64_1d_constants", r3 is not None and len(W.dims_of(r3)) == 2, "C03")
        else:
            ctx.check("C03.folding.get_bool_value.reads_single_bool", r2 is True, "C03")


def s_split_to_sequence(ctx):
    """SplitToSequence: exception freedom for every kind of `split` operand (constant / graph input; scalar / 1-D;
    with or without static shape)."""
    import onnx_ir as ir
    I = Interp(ctx)
    W = World(I)
    state = new_state(I)
    xs = [None, [6, 3], [7, 3], ["N", 3], []][ctx.choose(5, "shape of x")]
    x = W.value("x", dims=xs, rt=[], dtype=ir.DataType.FLOAT)
    split_known = ctx.choose(2, "split constant") == 0
    split_rank = ctx.choose(2, "split rank")  # 0 scalar, 1 vector
    items = [[2], [0], [-1], [4]][ctx.choose(4, "scalar split size")] if split_rank == 0 else [3, 3]
    shape_known = ctx.choose(2, "split shape annotated") == 0
    sp = W.value("split", dims=(([len(items)] if split_rank == 1 else []) if shape_known else None), rt=[], dtype=ir.DataType.INT64,
                 const=(W.tensor(items, ir.DataType.INT64, ndim=split_rank) if split_known else None), graph_input=not split_known)
    axis = [None, 0, -1][ctx.choose(3, "axis")]
    node = W.node("SplitToSequence", [x, sp], attrs=({} if axis is None else {"axis": axis}))
    node.fields["outputs"][0].fields["name"] = "seq"
    try:
        r = run_eval(I, _cf().split_to_sequence, node, OpRecorder(), state)
    except PyRaise as e:
        ctx.check("C04.folding.split_to_sequence.never_raises", False, CL04)
        return
    ctx.check("C04.folding.split_to_sequence.returns_normally", True, CL04)


def s_split_to_sequence_semantics(ctx):
    """SplitToSequence(x, split, axis, keepdims) -> SequenceConstruct(parts of Split): the replacement sequence has as many elements as the
    original, element i is chunk i of x along the axis with the chunk length the operator documents, and KEEPS the split axis
    (ONNX: 'keepdims ... If input split is specified, this attribute is ignored' — and the evaluator only handles a given split)."""
    import math
    import onnx_ir as ir
    from .irmodel import OutRef
    I = Interp(ctx)
    W = World(I)
    state = new_state(I)
    d = [6, 7][ctx.choose(2, "extent of the split axis")]
    x = W.value("x", dims=[d, 3], rt=[], dtype=ir.DataType.FLOAT)
    kind = ["scalar constant", "1-D constant", "1-D non-constant with annotated length"][ctx.choose(3, "split operand")]
    if kind == "scalar constant":
        c = [1, 2, 4, 6, 7, 9][ctx.choose(6, "chunk size")]
        want = [c] * (d // c) + ([d % c] if d % c else [])
        sp = W.value("split", dims=[], rt=[], dtype=ir.DataType.INT64, const=W.tensor([c], ir.DataType.INT64, ndim=0))
    elif kind == "1-D constant":
        parts = [[1] * d, [2, d - 2], [d]][ctx.choose(3, "chunk lengths")]
        want = list(parts)
        sp = W.value("split", dims=[len(parts)], rt=[], dtype=ir.DataType.INT64, const=W.tensor(parts, ir.DataType.INT64, ndim=1))
    else:
        want = ["split[0]", "split[1]"]
        sp = W.value("split", dims=[2], rt=[], dtype=ir.DataType.INT64, const=None, graph_input=True)
    axis = [None, 0, -2][ctx.choose(3, "axis")]
    keepdims = [None, 0, 1][ctx.choose(3, "keepdims")]
    attrs = {}
    if axis is not None:
        attrs["axis"] = axis
    if keepdims is not None:
        attrs["keepdims"] = keepdims
    node = W.node("SplitToSequence", [x, sp], attrs=attrs)
    node.fields["outputs"][0].fields["name"] = "seq"
    op = OpRecorder()
    try:
        r = run_eval(I, _cf().split_to_sequence, node, op, state)
    except PyRaise as e:
        ctx.check("C04.folding.split_to_sequence.never_raises", False, CL04)
        return
    if r is None:
        ctx.cover("split_to_sequence.kept")
        return
    ctx.cover("split_to_sequence.rewritten")
    P = "C03.folding.split_to_sequence."
    CL = "C03: 'returns the same outputs - count, element types, shapes and values' (ONNX SplitToSequence / Split operator documentation)"
    ok = isinstance(r, Call) and r.op == "SequenceConstruct" and not {k for k in r.kwargs if not k.startswith("_")}
    ctx.check(P + "replacement_is_a_sequence_of_the_parts", ok, CL)
    if not ok:
        return
    ctx.check(P + "same_number_of_sequence_elements", len(r.args) == len(want), CL)
    if len(r.args) != len(want):
        return

    def element(e):
        """-> (chunk length along axis 0, rank) of a recorded value, from the documented meaning of Split / Squeeze"""
        if isinstance(e, Call) and e.op == "Squeeze":
            ln, rank = element(e.args[0])
            return ln, rank - 1
        call, idx = (e.call, e.index) if isinstance(e, OutRef) else (e, 0)
        if not (isinstance(call, Call) and call.op == "Split" and call.args[0] is x and call.kwargs.get("axis", 0) in (0, -2)):
            return None, None
        nout = call.kwargs.get("_outputs")
        nout = len(nout) if isinstance(nout, (list, tuple)) else (nout or 1)
        if len(call.args) > 1 and call.args[1] is not None:
            sizes = call.args[1]
            if sizes is sp:
                lens = list(want) if kind != "scalar constant" else None     # Split needs a 1-D `split`
            elif isinstance(sizes, Call) and sizes.op == "Constant":
                lens = list(sizes.kwargs.get("value_ints") or [])
            else:
                lens = None
            if lens is None or len(lens) != nout or "num_outputs" in call.kwargs:
                return None, None
            return lens[idx], 2
        n = call.kwargs.get("num_outputs")
        if n != nout or not isinstance(n, int) or n <= 0:
            return None, None
        # Split-18 with num_outputs: equal chunks, the last one smaller if the extent is not divisible
        size = math.ceil(d / n)
        lens = [size] * (n - 1) + [d - size * (n - 1)]
        return lens[idx], 2
    got = [element(e) for e in r.args]
    ctx.check(P + "element_i_is_chunk_i_with_the_documented_length", [g[0] for g in got] == want, CL)
    if keepdims == 0:
        ctx.check(P + "elements_keep_the_split_axis_keepdims_is_ignored_when_split_is_given", all(g[1] == 2 for g in got), CL)
    else:
        ctx.check(P + "elements_keep_the_split_axis", all(g[1] == 2 for g in got), CL)


def _mk(fn, *a):
    def run(ctx):
        return fn(ctx, *a)
    return run


F = lambda *q: [(REL, x) for x in q]
TRUST = ["ONNX operator documentation for Reshape / Expand / Abs / Add / Gather / Shape / Size / Cast / CastLike (theory T1/T2, DESIGN 3.2)",
         "shape annotations on values are sound for every accepted input (C09's stated assumption)",
         "onnx_ir Shape / SymbolicDim (interpreted from their real source); SymbolicDim('a+b') denotes the sum"]
BOUND = "ranks <= 2, shape-like tensors with <= 2 elements; every dim kind (static int / named N, M / unknown); all integer values unbounded"

SCENARIOS = [
    Scenario("C09.folding.reshape", _mk(s_reshape_expand, "Reshape"), F("reshape", "_same_shape", "_propagate_shape_value", "OptimizerState.get_shape_value", "_get_numpy_value"),
             kind="bounded", bound=BOUND, trusted=TRUST, max_paths=20000),
    Scenario("C09.folding.expand", _mk(s_reshape_expand, "Expand"), F("expand", "_same_shape"), kind="bounded", bound=BOUND, trusted=TRUST, max_paths=20000),
    Scenario("C09.folding.abs", s_abs, F("abs"), kind="bounded", bound=BOUND, trusted=TRUST),
    Scenario("C09.folding.add", s_add, F("add", "add.get_dim_value"), kind="bounded", bound=BOUND, trusted=TRUST),
    Scenario("C09.folding.gather", s_gather, F("gather", "_get_int_attribute"), kind="bounded", bound=BOUND, trusted=TRUST, max_paths=20000),
    Scenario("C09.folding.shape_size", s_shape_size, F("shape", "size"), kind="bounded", bound=BOUND, trusted=TRUST, max_paths=20000),
    Scenario("C03.folding.cast", s_cast, F("cast", "cast_like", "_get_input_element_type")),
    Scenario("C04.folding.graph_input_guard", s_graph_input_guard, F("_get_numpy_value", "_get_bool_value", "OptimizerState.get_shape_value")),
    Scenario("C04.folding.split_to_sequence", s_split_to_sequence, F("split_to_sequence"), kind="bounded", bound=BOUND, max_paths=20000),
    Scenario("C03.folding.split_to_sequence", s_split_to_sequence_semantics, F("split_to_sequence"), kind="bounded",
             bound="x of shape [6,3] / [7,3] split along axis 0; split: constant scalar in {1,2,4,6,7,9}, constant 1-D (3 patterns), non-constant 1-D of annotated length 2; axis absent / 0 / -2; keepdims absent / 0 / 1",
             trusted=TRUST + ["ONNX SplitToSequence-11 / Split-18 operator documentation (chunk lengths; keepdims ignored when split is given)"]),
]


def s_add_unbounded(ctx):
    """add on operands known through Shape sym values of ARBITRARY length (symbolic-length dims sequence): the code
    records a result only for single-element operands; the recorded entry denotes the sum; Inv_sym must be kept."""
    import onnx_ir as ir
    from pyvc.values import SSeq
    I = Interp(ctx)
    W = World(I)
    state = new_state(I)
    ops, elems, lens = [], [], []
    for nm in ("a", "b"):
        n = ctx.int(f"len_{nm}")
        ctx.assume(n >= 0)
        first_kind = ["int", "N", "M"][ctx.choose(3, f"kind of {nm}[0]")]
        s0, t0 = W.dim(first_kind, f"{nm}0", nonneg=False)
        if isinstance(s0, str):
            s0 = ir.SymbolicDim(s0)

        def get(i, s0=s0, nm=nm):
            if z3.is_int_value(z3.simplify(i)) and z3.simplify(i).as_long() == 0:
                return s0
            return SInt(ctx.int(f"{nm}_elem"))
        shp = SObj(ir.Shape, "symshape")
        shp.fields.update(_dims=SSeq(n, get, name=f"dims_{nm}"), _frozen=True)
        v = W.value(nm, dims=None, rt=[], dtype=ir.DataType.INT64)
        I.call(I.getattr(state, "set_sym_value"), [v, shp])
        ops.append(v)
        elems.append(t0)
        lens.append(n)
    node = W.node("Add", ops)
    r = run_eval(I, _cf().add, node, OpRecorder(), state)
    out = node.fields["outputs"][0]
    sv = I.call(I.getattr(state, "get_sym_value"), [out])
    ctx.check("C03.folding.add.returns_no_replacement", r is None, CL09)
    if sv is None:
        ctx.cover("add.unbounded.nothing_recorded")
        return
    ctx.cover("add.unbounded.recorded")
    ctx.check("C09.folding.add.records_a_value_only_for_single_element_operands", z3.And(lens[0] == 1, lens[1] == 1), CL09)
    dims = W.dims_of(sv)
    ok = len(dims) == 1
    ctx.check("C09.folding.add.recorded_value_has_one_element", ok, CL09)
    if not ok:
        return
    total = elems[0] + elems[1]
    d = dims[0]
    if isinstance(d, (int, SInt)):
        ctx.check("C09.folding.add.recorded_constant_is_the_sum", term(d) == total, CL09)
    else:
        ctx.check("C09.folding.add.symbolic_result_keeps_the_nonnegativity_invariant", total >= 0,
                  "C09: Abs is dropped on symbolic entries because they are assumed >= 0; a sum with a negative constant is not")


SCENARIOS.append(Scenario("C09.folding.add[any length]", s_add_unbounded, F("add", "add.get_dim_value", "OptimizerState.get_shape_value", "OptimizerState.get_sym_value"),
                          trusted=TRUST))


# ------------------------------------------------------------------ concat ---------------------

def s_concat(ctx, mode, n):
    """Concat: Identity for one operand; operands removed only when statically empty along the axis; the recorded
    shape value (axis 0, every operand a known shape value) is the concatenation."""
    import onnx_ir as ir
    I = Interp(ctx)
    W = World(I)
    state = new_state(I)
    axis = [None, 0, 1, -1, 3][ctx.choose(5, "axis attribute")]
    ops, rts, elems = [], [], []
    small = n >= 3
    for i in range(n):
        if mode == 0:
            static, rt = choose_shape(ctx, W, f"x{i}", max_rank=(1 if small else 2), kinds=(["int", "N"] if small else ["int", "N", "unknown"]))
            v = W.value(f"x{i}", dims=static, rt=rt, dtype=ir.DataType.FLOAT)
            v.static = static
            ops.append(v)
            rts.append(rt)
        else:
            v, el, how = shape_like_value(ctx, W, I, state, f"s{i}", max_len=(1 if small else 2))
            v.static = W.dims_of(v.fields["shape"])
            ops.append(v)
            rts.append(None)
            elems.append(el)
    node = W.node("Concat", ops, attrs=({} if axis is None else {"axis": axis}))
    op = OpRecorder()
    try:
        r = run_eval(I, _cf().concat, node, op, state)
    except PyRaise as e:
        ctx.check("C04.folding.concat.never_raises", False, CL04)
        return
    out = node.fields["outputs"][0]
    if r is not None:
        ok = isinstance(r, Call) and r.op in ("Identity", "Concat")
        ctx.check("C03.folding.concat.replacement_is_identity_or_concat", ok, CL09)
        if not ok:
            return
        kept = list(r.args)
        # kept operands: a subsequence of the operands, in order
        it = iter(ops)
        sub = all(any(k is o for o in it) for k in kept)
        ctx.check("C03.folding.concat.kept_operands_are_a_subsequence_of_the_operands", sub and len(kept) >= 1, CL09)
        if r.op == "Concat":
            ctx.check("C03.folding.concat.keeps_the_axis", set(r.kwargs) == {"axis"} and r.kwargs["axis"] == axis, CL09)
        removed = [o for o in ops if not any(o is k for k in kept)]
        if r.op == "Identity" and n > 1:
            removed = [o for o in ops]  # every operand must be empty: Identity(first) has the summed (zero) extent
        for o in removed:
            # statically empty along the axis for every binding: a static int 0 at that position
            okz = axis is not None and o.static is not None and -len(o.static) <= axis < len(o.static)
            if okz:
                d = o.static[axis]
                m = W.mean(d)
                okz = m is not None
                if okz:
                    ctx.check("C09.folding.concat.removed_operand_is_empty_along_the_axis_for_every_binding", m == 0, CL09)
            if not okz:
                ctx.check("C09.folding.concat.removed_operand_is_empty_along_the_axis_for_every_binding", False, CL09)
        return
    sv = I.call(I.getattr(state, "get_sym_value"), [out])
    if sv is not None:
        ok = mode == 1 and axis == 0 and all(e is not None for e in elems) and isinstance(sv, (SObj, ir.Shape))
        ctx.check("C09.folding.concat.records_a_value_only_for_axis0_concat_of_known_shape_values", ok, CL09)
        if ok:
            flat = [t for e in elems for t in e]
            dims = W.dims_of(sv)
            ctx.check("C09.folding.concat.recorded_value_has_the_total_length", len(dims) == len(flat), CL09)
            if len(dims) == len(flat):
                for d, t in zip(dims, flat):
                    m = W.mean(d)
                    if m is None:
                        continue
                    ctx.check("C09.folding.concat.recorded_entry_is_the_concatenated_entry", m == t, CL09)


# ------------------------------------------------------------------ identity / propagate -------

def s_identity(ctx):
    """Identity: backward shape inference keeps the input annotation sound (given both annotations are sound and
    Identity copies its input), the output is recorded as an alias of the input."""
    import onnx_ir as ir
    I = Interp(ctx)
    W = World(I)
    state = new_state(I)
    r_in = [None, 0, 1, 2][ctx.choose(4, "rank of the input annotation")]
    r_out = [None, 0, 1, 2][ctx.choose(4, "rank of the output annotation")]
    rank = r_in if r_in is not None else (r_out if r_out is not None else 1)
    rt = []
    for i in range(rank):
        t = ctx.int(f"rt{i}")
        ctx.assume(t >= 0)
        rt.append(t)

    def annot(tag, r):
        if r is None:
            return None
        dims = []
        for i in range(r):
            k = ["int", "N", "M", "unknown"][ctx.choose(4, f"kind of {tag}[{i}]")]
            if k == "unknown":
                dims.append(ir.SymbolicDim(None))
            elif k == "int":
                t = ctx.int(f"{tag}{i}")
                ctx.assume(t >= 0)
                dims.append(SInt(t))
                if i < len(rt):
                    ctx.assume(t == rt[i])       # annotation soundness
            else:
                dims.append(k)
                if i < len(rt):
                    ctx.assume(Rho(z3.StringVal(k)) == rt[i])
        return dims
    d_in, d_out = annot("in", r_in), annot("out", r_out)
    sound_ranks = (r_in is None or r_in == rank) and (r_out is None or r_out == rank)
    x = W.value("x", dims=d_in, rt=rt, dtype=None)
    node = W.node("Identity", [x])
    y = node.fields["outputs"][0]
    y.fields["shape"] = W.shape(d_out) if d_out is not None else None
    y.fields["type"] = "T_out"
    try:
        r = run_eval(I, _cf().identity, node, OpRecorder(), state)
    except PyRaise as e:
        ctx.check("C04.folding.identity.never_raises", False, CL04)
        return
    ctx.check("C03.folding.identity.node_is_kept", r is None, CL09)
    if not sound_ranks:
        ctx.cover("identity.inconsistent annotations (not a sound model)")
        return
    sh = x.fields["shape"]
    if sh is not None:
        dims = W.dims_of(sh)
        ctx.check("C09.folding.identity.merged_input_shape_has_the_runtime_rank", len(dims) == rank, CL09)
        if len(dims) == rank:
            for d, t in zip(dims, rt):
                m = W.mean(d)
                if m is None:
                    continue
                ctx.check("C09.folding.identity.merged_input_dim_is_the_runtime_dim_for_every_binding", m == t, CL09)
    else:
        ctx.check("C09.folding.identity.shape_stays_unknown_only_if_neither_side_is_annotated", d_in is None and d_out is None, CL09)
    ctx.check("C03.folding.identity.input_type_filled_from_the_output", x.fields["type"] == "T_out", CL09)
    sv = I.call(I.getattr(state, "get_sym_value"), [y])
    ctx.check("C03.folding.identity.output_recorded_as_alias_of_the_input", sv is x, CL09)


def s_propagate(ctx, which):
    """Reshape (kept) / Squeeze / Unsqueeze: the output carries the VALUES of input 0, so only input 0's shape value
    may be propagated to it."""
    import onnx_ir as ir
    I = Interp(ctx)
    W = World(I)
    state = new_state(I)
    x, elems, how = shape_like_value(ctx, W, I, state, "x", max_len=2)
    s, selems, show = shape_like_value(ctx, W, I, state, "aux", max_len=2)
    node = W.node(which, [x, s])
    try:
        r = run_eval(I, getattr(_cf(), which.lower()), node, OpRecorder(), state)
    except PyRaise as e:
        ctx.check(f"C04.folding.{which.lower()}.never_raises", False, CL04)
        return
    if r is not None:
        ctx.cover(f"{which}.replaced")
        return
    out = node.fields["outputs"][0]
    sv = I.call(I.getattr(state, "get_sym_value"), [out])
    if sv is None:
        return
    ok = elems is not None and isinstance(sv, (SObj, ir.Shape))
    ctx.check(f"C09.folding.{which.lower()}.propagates_only_the_shape_value_of_input_0", ok, CL09)
    if ok:
        dims = W.dims_of(sv)
        ctx.check(f"C09.folding.{which.lower()}.propagated_value_has_the_same_entries", len(dims) == len(elems), CL09)
        if len(dims) == len(elems):
            for d, t in zip(dims, elems):
                m = W.mean(d)
                if m is None:
                    continue
                ctx.check(f"C09.folding.{which.lower()}.propagated_entry_is_the_entry_of_input_0", m == t, CL09)


# ------------------------------------------------------------------ dropout --------------------

def s_dropout(ctx):
    """Dropout -> Identity (+ all-true mask) only in inference mode or with ratio 0."""
    import onnx_ir as ir
    I = Interp(ctx)
    W = World(I)
    state = new_state(I)
    x = W.value("x", dims=None, rt=[], dtype=ir.DataType.FLOAT)
    n_in = 1 + ctx.choose(3, "number of inputs")
    ratio_kind = ["absent", "const", "unknown", "vector"][ctx.choose(4, "ratio")] if n_in >= 2 else "absent"
    ratio_t = None
    ins = [x]
    if n_in >= 2:
        if ratio_kind == "absent":
            ins.append(None)
        elif ratio_kind in ("const", "vector"):
            ratio_t = ctx.int("ratio_num")   # ratio as an integer-valued stand-in: only ==0 matters
            ctx.witness["ratio_num"] = ratio_t
            items = [SInt(ratio_t)] if ratio_kind == "const" else [SInt(ratio_t), SInt(ratio_t)]
            ins.append(W.value("ratio", dims=[], rt=[], dtype=ir.DataType.FLOAT, const=W.tensor(items, ir.DataType.FLOAT, ndim=0 if ratio_kind == "const" else 1), initializer=True))
        else:
            ins.append(W.value("ratio", dims=[], rt=[], dtype=ir.DataType.FLOAT))
    tm_kind = "absent"
    if n_in >= 3:
        tm_kind = ["absent", "true", "false", "unknown", "graph_input_default_false"][ctx.choose(5, "training_mode")]
        if tm_kind == "absent":
            ins.append(None)
        elif tm_kind in ("true", "false"):
            ins.append(W.value("tm", dims=[], rt=[], dtype=ir.DataType.BOOL, const=W.tensor([tm_kind == "true"], ir.DataType.BOOL, ndim=0), initializer=True))
        elif tm_kind == "graph_input_default_false":
            ins.append(W.value("tm", dims=[], rt=[], dtype=ir.DataType.BOOL, const=W.tensor([False], ir.DataType.BOOL, ndim=0), initializer=True, graph_input=True))
        else:
            ins.append(W.value("tm", dims=[], rt=[], dtype=ir.DataType.BOOL))
    n_out = 1 + ctx.choose(2, "mask output present")
    node = W.node("Dropout", ins, outputs=n_out)
    I.models[ir.tensor] = lambda interp, v, *a, **k: ("tensor", tuple(v))
    op = OpRecorder()
    try:
        r = run_eval(I, _cf().dropout, node, op, state)
    except PyRaise as e:
        ctx.check("C04.folding.dropout.never_raises", False, CL04)
        return
    if r is None:
        ctx.cover("dropout.kept")
        return
    inference = tm_kind in ("absent", "false")
    zero_ratio = ratio_kind == "const" and ratio_t is not None
    if inference:
        ctx.check("C03.folding.dropout.identity_in_inference_mode", True, "C03")
    else:
        ok = zero_ratio
        ctx.check("C03.folding.dropout.in_training_mode_identity_only_for_a_known_scalar_ratio", ok,
                  "C03: 'optimize ... produces the same outputs' — training-mode Dropout is random unless ratio == 0")
        if ok:
            ctx.check("C03.folding.dropout.in_training_mode_identity_only_for_ratio_zero", ratio_t == 0, "C03")
    y = r[0] if isinstance(r, tuple) else r
    ctx.check("C03.folding.dropout.output_is_identity_of_the_data_input", is_identity_of(y, x), "C03")
    ctx.check("C03.folding.dropout.as_many_results_as_outputs", (isinstance(r, tuple) and len(r) == 2) == (n_out == 2), "C04: 'same interface'")
    if isinstance(r, tuple) and len(r) == 2:
        m = r[1]
        okm = isinstance(m, Call) and m.op == "ConstantOfShape" and len(m.args) == 1 and isinstance(m.args[0], Call) and m.args[0].op == "Shape" \
            and m.args[0].args == (x,) and not m.args[0].kwargs and m.kwargs.get("value") == ("tensor", (True,))
        ctx.check("C03.folding.dropout.mask_is_all_true_of_the_input_shape", okm, "C03: Dropout's mask output is all true when nothing is dropped")


SCENARIOS += [
] + [
    Scenario(f"C09.folding.concat[{'data' if m == 0 else 'shape-like'} x{n}]", _mk(s_concat, m, n), F("concat", "concat.has_zero_size", "_get_int_attribute", "OptimizerState.get_shape_value"),
             kind="bounded", bound="1-3 operands (with 3: ranks <= 1, one element); " + BOUND, trusted=TRUST + ["ONNX Concat: operands agree on every dim but the axis"], max_paths=60000)
    for m in (0, 1) for n in (1, 2, 3)
] + [
    Scenario("C09.folding.identity", s_identity, F("identity", "_merge_shapes", "_merge_shapes.merge_dims"),
             kind="bounded", bound=BOUND, trusted=TRUST),
    Scenario("C09.folding.propagate.reshape", _mk(s_propagate, "Reshape"), F("reshape", "_propagate_shape_value"), kind="bounded", bound=BOUND, trusted=TRUST),
    Scenario("C09.folding.propagate.squeeze", _mk(s_propagate, "Squeeze"), F("squeeze", "_propagate_shape_value"), kind="bounded", bound=BOUND, trusted=TRUST),
    Scenario("C03.folding.dropout", s_dropout, F("dropout", "dropout.optimized_dropout", "_get_bool_value", "_get_numpy_value"),
             trusted=["ONNX Dropout: inference mode (training_mode absent or false) and ratio 0 copy the input and give an all-true mask"]),
]


# ------------------------------------------------------------------ the same contracts for EVERY rank / length (deductive) ---
# Shapes and Shape sym values of symbolic length (contracts/symshape.py).  all()/any()/== over them are used at ONE arbitrary
# (Skolem) position, fixed before the call; since the position is arbitrary the obligations hold for every position.

def _anyrank(ctx):
    import onnx_ir as ir
    from .symshape import SymShape
    I = Interp(ctx)
    I.quant_skolem = True
    W = World(I)
    state = new_state(I)
    i0 = ctx.int("i0")   # forward index
    ctx.assume(i0 >= 0)
    ctx.witness["i0"] = i0
    return ir, SymShape, I, W, state, i0


def _val(W, name, symshape, dtype):
    v = W.value(name, dims=None, rt=None, dtype=dtype)
    v.fields["shape"] = symshape.obj if symshape is not None else None
    return v


CLR = "C09: '... stays correct for every concrete input shape the original model accepts' — every rank, every dim kind, every binding"


def s_anyrank_reshape_expand(ctx, which):
    """reshape / expand (target known through a Shape sym value of ANY length): Identity only if the target equals the run-time
    shape of x (rank and every extent) under every binding."""
    ir, SymShape, I, W, state, i0 = _anyrank(ctx)
    X = SymShape(I, "x")
    T = SymShape(I, "target", data=True)
    x = _val(W, "x", X, ir.DataType.FLOAT)
    s = W.value("target", dims=None, rt=None, dtype=ir.DataType.INT64)
    I.call(I.getattr(state, "set_sym_value"), [s, T.obj])
    node = W.node(which, [x, s])
    op = OpRecorder()
    try:
        r = run_eval(I, getattr(_cf(), which.lower()), node, op, state)
    except PyRaise:
        ctx.check(f"C04.folding.{which.lower()}.any_rank.never_raises", False, CL04)
        return
    if r is None:
        ctx.cover(f"{which}.any_rank.kept")
        return
    ok = is_identity_of(r, x)
    ctx.check(f"C03.folding.{which.lower()}.any_rank.replacement_is_identity_of_the_input", ok, CL09)
    if not ok:
        return
    I.instantiate_forall(i0)
    ctx.cover(f"{which}.any_rank.identity")
    px, pt = X.rank - 1 - i0, T.rank - 1 - i0
    X.facts(px)
    T.facts(pt)
    ctx.check(f"C09.folding.{which.lower()}.any_rank.identity_only_if_the_target_has_the_rank_of_the_input", X.rank == T.rank, CLR)
    # (Expand: output = broadcast(x.shape, target); with target == x.shape entry by entry that is x.shape)
    ctx.check(f"C09.folding.{which.lower()}.any_rank.identity_only_if_target_equals_runtime_shape_for_every_binding",
              z3.Implies(i0 < X.rank, T.rt(pt) == X.rt(px)), CLR)


def s_anyrank_abs(ctx):
    """abs over a Shape sym value of ANY length: Identity only if every entry is >= 0 under every binding (Inv_sym)."""
    ir, SymShape, I, W, state, i0 = _anyrank(ctx)
    T = SymShape(I, "x", data=True)
    x = W.value("x", dims=None, rt=None, dtype=ir.DataType.INT64)
    I.call(I.getattr(state, "set_sym_value"), [x, T.obj])
    node = W.node("Abs", [x])
    op = OpRecorder()
    try:
        r = run_eval(I, _cf().abs, node, op, state)
    except PyRaise:
        ctx.check("C04.folding.abs.any_rank.never_raises", False, CL04)
        return
    if r is None:
        ctx.cover("abs.any_rank.kept")
        return
    ok = is_identity_of(r, x)
    ctx.check("C03.folding.abs.any_rank.replacement_is_identity_of_the_input", ok, CL09)
    if not ok:
        return
    I.instantiate_forall(i0)
    ctx.cover("abs.any_rank.identity")
    p = T.rank - 1 - i0
    T.facts(p)
    ctx.check("C09.folding.abs.any_rank.identity_only_if_every_element_nonnegative_for_every_binding",
              z3.Implies(i0 < T.rank, T.rt(p) >= 0), CLR)


def s_anyrank_shape(ctx):
    """shape (Shape(x, start, end)) for every rank and every integer start / end: the recorded sym value (and the Constant, when
    every selected dim is static) has the ONNX length (start / end clamped to [0, rank] after adding rank to negative values) and
    its j-th entry denotes dim start' + j of x under every binding."""
    from .symshape import describe, denotes
    ir, SymShape, I, W, state, i0 = _anyrank(ctx)
    X = SymShape(I, "x")
    x = _val(W, "x", X, ir.DataType.FLOAT)
    attrs = {}
    start = end = None
    if ctx.choose(2, "start given"):
        start = ctx.int("start")
        ctx.witness["start"] = start
        attrs["start"] = SInt(start)
    if ctx.choose(2, "end given"):
        end = ctx.int("end")
        ctx.witness["end"] = end
        attrs["end"] = SInt(end)
    node = W.node("Shape", [x], attrs=attrs)
    op = OpRecorder()

    def attr_ints(interp, name, value):
        a = SObj(ir.Attr, "attr_" + name)
        a.fields.update(name=name, value=value, type=ir.AttributeType.INTS)
        return a
    I.models[ir.AttrInt64s] = attr_ints
    try:
        r = run_eval(I, _cf().shape, node, op, state)
    except PyRaise:
        ctx.check("C04.folding.shape.any_rank.never_raises", False, CL04)
        return
    n = X.rank

    def clamp(v, default):   # ONNX Shape-15: negative values count from the end, then clamp into [0, rank]
        if v is None:
            return default
        w = z3.If(v < 0, v + n, v)
        return z3.If(w < 0, 0, z3.If(w > n, n, w))
    lo, hi = clamp(start, z3.IntVal(0)), clamp(end, n)
    length = z3.If(hi > lo, hi - lo, 0)
    out = node.fields["outputs"][0]
    sv = I.call(I.getattr(state, "get_sym_value"), [out])
    ctx.check("C09.folding.shape.any_rank.records_a_sym_value", isinstance(sv, SObj), CLR)
    if not isinstance(sv, SObj):
        return
    dims = sv.fields["_dims"]
    from pyvc.values import SSeq
    dl = dims.len if isinstance(dims, SSeq) else z3.IntVal(len(dims))
    ctx.check("C09.folding.shape.any_rank.recorded_length_is_the_onnx_slice_length", dl == length, CLR)
    if not ctx.branch(z3.And(i0 < length)):
        return
    d = dims.at(i0) if isinstance(dims, SSeq) else None
    if d is None:
        return
    fwd = lo + i0                      # forward index into x's shape
    p = n - 1 - fwd
    X.facts(p)
    ctx.check("C09.folding.shape.any_rank.recorded_entry_denotes_the_selected_dim_for_every_binding", denotes(describe(d), X.rt(p)), CLR)
    if r is None:
        ctx.cover("shape.any_rank.no_constant")
        return
    ok = isinstance(r, Call) and r.op == "Constant" and set(r.kwargs) == {"value_ints"} and isinstance(r.kwargs["value_ints"], SObj)
    ctx.check("C03.folding.shape.any_rank.replacement_is_a_constant_of_ints", ok, CL09)
    if not ok:
        return
    I.instantiate_forall(i0)
    ctx.cover("shape.any_rank.constant")
    vals = r.kwargs["value_ints"].fields["value"]
    vl = vals.len if isinstance(vals, SSeq) else z3.IntVal(len(vals))
    ctx.check("C09.folding.shape.any_rank.constant_has_the_onnx_slice_length", vl == length, CLR)
    c = vals.at(i0) if isinstance(vals, SSeq) else vals[0]
    ctx.check("C09.folding.shape.any_rank.constant_entry_is_the_selected_dim_for_every_binding",
              z3.And(z3.BoolVal(isinstance(c, (int, SInt))), (term(c) == X.rt(p)) if isinstance(c, (int, SInt)) else z3.BoolVal(False)), CLR)


_TRA = ["shape annotations are sound for every accepted input; Inv_sym for Shape sym values (entries that are not static ints are dims, >= 0)",
        "onnx_ir Shape / SymbolicDim (interpreted from their real source)",
        "ONNX operator documentation: Reshape / Expand / Abs / Shape-15 (start, end clamping)"]
_ASA = ["all()/any()/== over sequences of symbolic length are used at one arbitrary (Skolem) position only; termination not proved"]
SCENARIOS += [
    Scenario("C09.folding.reshape[any rank]", lambda ctx: s_anyrank_reshape_expand(ctx, "Reshape"),
             [(REL, "reshape"), (REL, "_same_shape"), (REL, "_propagate_shape_value"), (REL, "OptimizerState.get_shape_value")],
             trusted=_TRA, assumptions=_ASA, max_paths=20000, budget_s=900),
    Scenario("C09.folding.expand[any rank]", lambda ctx: s_anyrank_reshape_expand(ctx, "Expand"),
             [(REL, "expand"), (REL, "_same_shape"), (REL, "OptimizerState.get_shape_value")],
             trusted=_TRA, assumptions=_ASA, max_paths=20000, budget_s=900),
    Scenario("C09.folding.abs[any rank]", s_anyrank_abs, [(REL, "abs"), (REL, "OptimizerState.get_shape_value")],
             trusted=_TRA, assumptions=_ASA, max_paths=20000, budget_s=900),
    Scenario("C09.folding.shape[any rank]", s_anyrank_shape, [(REL, "shape"), (REL, "_get_int_attribute")],
             trusted=_TRA, assumptions=_ASA, max_paths=20000, budget_s=900),
]


def s_anyrank_merge_shapes(ctx):
    """_merge_shapes (backward shape inference on Identity) for shapes of ANY rank: two sound annotations of the same run-time shape merge
    into a sound annotation of it — same rank, and every merged dim denotes the run-time extent under every binding.  (Which of two sound
    dims is kept is a matter of precision, not of the property: no obligation.)"""
    from .symshape import describe, denotes
    ir, SymShape, I, W, state, i0 = _anyrank(ctx)
    A = SymShape(I, "preferred")
    B = SymShape(I, "other")
    ctx.assume(A.rank == B.rank)                    # both annotate the same tensor
    p = A.rank - 1 - i0
    A.facts(p)
    B.facts(p)
    ctx.assume(z3.Implies(i0 < A.rank, A.rt(p) == B.rt(p)))
    try:
        r = I.call(_cf()._merge_shapes, [A.obj, B.obj])
    except PyRaise:
        ctx.check("C04.folding.merge_shapes.any_rank.never_raises_for_two_annotations_of_one_tensor", False, CL04)
        return
    ok = isinstance(r, SObj)
    ctx.check("C09.folding.merge_shapes.any_rank.returns_a_shape", ok, CLR)
    if not ok:
        return
    dims = r.fields["_dims"]
    from pyvc.values import SSeq
    dl = dims.len if isinstance(dims, SSeq) else z3.IntVal(len(dims))
    ctx.check("C09.folding.merge_shapes.any_rank.merged_shape_has_the_rank_of_the_tensor", dl == A.rank, CLR)
    if not ctx.branch(i0 < A.rank):
        return
    d = dims.at(i0)
    ctx.cover("merge_shapes.any_rank.dim")
    ctx.check("C09.folding.merge_shapes.any_rank.merged_dim_denotes_the_runtime_extent_for_every_binding", denotes(describe(d), A.rt(p)), CLR)



SCENARIOS.append(Scenario("C09.folding.merge_shapes[any rank]", s_anyrank_merge_shapes, [(REL, "_merge_shapes"), (REL, "_merge_shapes.merge_dims")],
                          trusted=_TRA, assumptions=_ASA))


def s_anyrank_size(ctx):
    """size (Size(x)) for shapes of ANY rank: a Constant is returned only if every dim is static, and its value is the product of the
    run-time extents (the spec product is defined by recursion on the position: Prod(0) = 1, Prod(k+1) = Prod(k) * extent(k); the loop
    invariant is `size == Prod(k)`, so only the defining equation at the current position is needed — no nonlinear reasoning)."""
    from pyvc.interp import LoopSpec
    ir, SymShape, I, W, state, i0 = _anyrank(ctx)
    X = SymShape(I, "x", forward=False)
    n = X.rank
    x = _val(W, "x", X, ir.DataType.FLOAT)
    node = W.node("Size", [x])
    op = OpRecorder()
    Prod = z3.Function("Prod", z3.IntSort(), z3.IntSort())    # product of the first k extents (forward order)
    ctx.assume(Prod(0) == 1)

    def ext(k):   # run-time extent of forward position k
        p = n - 1 - k
        X.facts(p)
        return X.rt(p), p

    def mk_size(interp):
        return SInt(ctx.int("size"))

    def inv(interp, env, k, pre, it):
        sz = env.lookup("size")
        if not isinstance(k, int):
            e, _p = ext(k)
            ctx.assume(Prod(k + 1) == Prod(k) * e)            # defining equation of the spec product at this position
        st = term(sz)
        return [("size_is_the_product_of_the_extents_seen_so_far", st == Prod(k)),
                ("every_dim_seen_so_far_is_static", z3.Implies(z3.And(i0 < k, i0 < n), X.kind(n - 1 - i0) == 0))]
    I.loops[("size", 0)] = LoopSpec({"size": mk_size}, inv)
    try:
        r = run_eval(I, _cf().size, node, op, state)
    except PyRaise:
        ctx.check("C04.folding.size.any_rank.never_raises", False, CL04)
        return
    if r is None:
        ctx.cover("size.any_rank.kept")
        return
    ok = isinstance(r, Call) and r.op == "Constant" and set(r.kwargs) == {"value_int"}
    ctx.check("C03.folding.size.any_rank.replacement_is_a_constant_int", ok, CL09)
    if not ok:
        return
    ctx.cover("size.any_rank.constant")
    X.facts(n - 1 - i0)
    ctx.check("C09.folding.size.any_rank.constant_only_if_every_dim_is_static", z3.Implies(i0 < n, X.kind(n - 1 - i0) == 0), CLR)
    ctx.check("C09.folding.size.any_rank.constant_is_the_product_of_the_runtime_extents", term(r.kwargs["value_int"]) == Prod(n), CLR)


SCENARIOS.append(Scenario("C09.folding.size[any rank]", s_anyrank_size, [(REL, "size")], trusted=_TRA,
                          assumptions=_ASA + ["the product of the extents is the recursively defined Prod; machine integers treated as mathematical"]))


# ------------------------------------------------------------------ the evaluator registry: evaluators without a contract ---

CONTRACTED_EVALUATORS = {"add", "abs", "gather", "reshape", "squeeze", "cast", "cast_like", "shape", "size", "if_op", "identity", "sequence_construct", "concat",
                         "dropout", "expand", "concat_from_sequence", "split_to_sequence", "sequence_at"}


def s_evaluator_registry(_ctx):
    """Inv_sym ('every entry of a Shape sym value that is not a static int is a dimension, >= 0 for every binding') is a data-structure invariant:
    every partial evaluator that records sym values must preserve it.  The evaluators under contract are proved to; an evaluator registered
    WITHOUT a contract (added later) cannot be proved here, so it gets a bounded differential search on the real optimizer + onnxruntime over the
    consumers that rely on the invariant: Abs(op(Shape(x)[0:1], c)) / Abs(op(c, Shape(x)[0:1])) / Abs(op(Shape(x)[0:1])) for c in {1, -1, 3} and
    N in {0, 1, 2, 3}.  Refuted only with a concrete failing input (never on suspicion)."""
    import numpy as np
    from contracts.c17_opsets import Agg
    cf = _cf()
    agg = Agg()
    unknown = []
    for (domain, op_type), evs in cf.registry.op_evaluators.items():
        for ev in evs:
            fn = ev.function
            if not (getattr(fn, "__module__", "") == cf.__name__ and fn.__name__ in CONTRACTED_EVALUATORS):
                unknown.append((domain, op_type, fn.__name__))
    agg.ob("C09.folding.registry.every_registered_evaluator_is_examined", True, f"{len(unknown)} evaluator(s) without a contract: {unknown}",
           "C09: 'every simplification the optimizer derives from shape information'")
    notes = [f"partial evaluator without a contract: {u} (bounded differential search only)" for u in unknown]
    for domain, op_type, fname in unknown:
        if domain not in ("", "ai.onnx"):
            continue
        try:
            bad = _probe_unknown_evaluator(op_type)
        except Exception as e:  # noqa: BLE001 - the probe is best effort: its own failure is not a verdict
            notes.append(f"probe of {op_type} failed: {type(e).__name__}: {e}")
            continue
        agg.ob("C09.folding.registry.evaluator_without_contract_keeps_shape_arithmetic_correct", not bad,
               f"{op_type} (evaluator {fname}): " + "; ".join(bad[:3]), CL09, case=op_type)
    return {"obligations": agg.obs, "paths": 1 + len(unknown), "covered": [f"unknown_evaluators={len(unknown)}"], "notes": notes, "functions": []}


def _probe_unknown_evaluator(op_type):
    import itertools
    import numpy as np
    import onnx
    import onnxruntime as ort
    from onnx import TensorProto, helper, numpy_helper
    import onnxscript.optimizer
    ort.set_default_logger_severity(4)
    bad = []

    def vi(n, t, s):
        return helper.make_tensor_value_info(n, t, s)
    forms = [("S", "c"), ("c", "S"), ("S",)]
    for form, c in itertools.product(forms, (1, -1, 3)):
        nodes = [helper.make_node("Shape", ["x"], ["S"], start=0, end=1),
                 helper.make_node("Constant", [], ["c"], value=numpy_helper.from_array(np.array([c], dtype=np.int64), "c")),
                 helper.make_node(op_type, list(form), ["a"]), helper.make_node("Abs", ["a"], ["y"])]
        g = helper.make_graph(nodes, "g", [vi("x", TensorProto.FLOAT, ["N", 2])], [vi("y", TensorProto.INT64, [1])])
        m = helper.make_model(g, opset_imports=[helper.make_opsetid("", 18)], ir_version=9)
        try:
            onnx.checker.check_model(m, full_check=True)
        except Exception:  # noqa: BLE001 - the operator does not take this form
            continue
        try:
            o = onnxscript.optimizer.optimize(m)
        except Exception as e:  # noqa: BLE001
            bad.append(f"Abs({op_type}({', '.join(form)})) with c={c}: optimize() raises {type(e).__name__}")
            continue
        for n in (0, 1, 2, 3):
            x = np.zeros((n, 2), np.float32)
            try:
                before = ort.InferenceSession(m.SerializeToString(), providers=["CPUExecutionProvider"]).run(None, {"x": x})[0]
            except Exception:  # noqa: BLE001
                continue
            try:
                after = ort.InferenceSession(o.SerializeToString(), providers=["CPUExecutionProvider"]).run(None, {"x": x})[0]
            except Exception as e:  # noqa: BLE001
                bad.append(f"Abs({op_type}({', '.join(form)})) c={c} N={n}: optimized model fails: {str(e).splitlines()[0][:80]}")
                continue
            if not np.array_equal(before, after):
                bad.append(f"Abs({op_type}({', '.join(form)})) with c={c}, x of shape [{n},2]: original {before.tolist()}, after optimize() {after.tolist()}")
    return bad


SCENARIOS.append(Scenario("C09.folding.evaluator_registry", s_evaluator_registry, [("onnxscript/optimizer/_constant_folding.py", "PartialEvaluatorRegistry.register")],
                          kind="evaluation",
                          assumptions=["an evaluator registered without a contract is only probed (bounded differential search: Abs over op(Shape(x)[0:1], c) in three operand "
                                       "forms, c in {1,-1,3}, N in {0,1,2,3}, on onnxruntime) — not proved; none exists on the unchanged tree"]))
