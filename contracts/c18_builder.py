"""C18 — GraphBuilder / nn.Module naming.

  GraphBuilder._qualify_initializer_name / _qualify_value_name / _qualify_node_name / _scope_name_parts
        the dotted (resp. v_-prefixed, slash-separated) path of the non-empty scope names, for symbolic names
        and scope stacks of depth <= 3 (string theory);
  GraphBuilder._adapt_outputs / _generate_node_name across a builder and its subgraph() child
        value and node names of the child must differ from those of the parent ("all value and node names are
        unique") — stated for symbolic node counts; FAILS on the pinned tree (child counters restart): known finding;
  nn.Module.__setattr__ / __call__ / state_dict + Parameter._realize + push_module/pop_module
        on a root -> child -> parameter tree with symbolic names: the initializer name equals
        root.name + '.' + state_dict key; realised exactly once, in the root graph; the scope stack is balanced
        also when forward raises.  With explicitly given child/parameter names the equality FAILS: known finding.
"""
from __future__ import annotations

import z3

from pyvc.harness import Scenario
from pyvc.interp import Interp, PyRaise
from pyvc.values import SObj, SStr, SInt, Opaque, StrSort, term, wrap

REL = "onnxscript/_internal/builder.py"
CL_NAME = "C18: 'every module parameter appears exactly once as an initializer whose name is the dotted module path, equal to the keys of state_dict()/named_parameters() prefixed with the root module's name'"
CL_UNIQ = "C18: 'all value and node names are unique'"
CL_VALID = "C18: 'A graph built imperatively through GraphBuilder/OpBuilder ... is a valid model that computes exactly the sequence of operator calls that was traced'"


def _b():
    from onnxscript._internal import builder
    return builder


def new_builder(I, depth_names=(), graph=None):
    b = _b()
    gb = SObj(b.GraphBuilder, "builder")
    g = graph if graph is not None else SObj(object, "graph")
    g.fields.setdefault("initializers", {})
    gb.fields.update(_graph=g, _root=gb, _parent=None, _scope_stack=[(n, "Cls") for n in depth_names])
    return gb


def s_qualify(ctx):
    I = Interp(ctx)
    k = ctx.choose(4, "scope depth")
    names = []
    for i in range(k):
        if ctx.choose(2, f"scope{i} empty") == 1:
            names.append("")
        else:
            n = z3.String(f"scope{i}")
            ctx.assume(z3.Length(n) > 0)
            names.append(SStr(n))
    gb = new_builder(I, names)
    nm = z3.String("name")
    nonempty = [n for n in names if not isinstance(n, str)]
    path_dot = None
    path_slash = None
    for n in nonempty:
        path_dot = n.t if path_dot is None else z3.Concat(path_dot, z3.StringVal("."), n.t)
        path_slash = n.t if path_slash is None else z3.Concat(path_slash, z3.StringVal("/"), n.t)
    b = _b().GraphBuilder
    r1 = I.run_closure(I.closure_of(b._qualify_initializer_name), [gb, SStr(nm)], {})
    r2 = I.run_closure(I.closure_of(b._qualify_value_name), [gb, SStr(nm)], {})
    r3 = I.run_closure(I.closure_of(b._qualify_node_name), [gb, SStr(nm)], {})
    w1 = nm if path_dot is None else z3.Concat(path_dot, z3.StringVal("."), nm)
    w2 = z3.Concat(z3.StringVal("v_"), nm) if path_dot is None else z3.Concat(z3.StringVal("v_"), path_dot, z3.StringVal("."), nm)
    w3 = nm if path_slash is None else z3.Concat(path_slash, z3.StringVal("/"), nm)
    ctx.check("C18.builder.qualify_initializer_name.is_dotted_module_path", term(r1) == w1, CL_NAME)
    ctx.check("C18.builder.qualify_value_name.is_v_prefixed_dotted_path", term(r2) == w2, CL_UNIQ)
    ctx.check("C18.builder.qualify_node_name.is_slash_path", term(r3) == w3, CL_UNIQ)


def s_subgraph_names(ctx):
    """A value/node created in a subgraph() child while the parent already has n nodes: its name must not be
    the name of a value/node the parent created."""
    I = Interp(ctx)
    b = _b()
    n_parent = ctx.int("n_parent_nodes")
    n_child = ctx.int("n_child_nodes")
    k = ctx.int("k")  # index of an earlier parent node
    ctx.assume(z3.And(n_parent >= 1, n_child >= 0, k >= 0, k < n_parent))
    for nm, v in (("n_parent_nodes", n_parent), ("n_child_nodes", n_child), ("k", k)):
        ctx.witness[nm] = v

    def mk(count):
        g = SObj(object, "graph")

        def num_nodes():
            raise AssertionError
        I.models[num_nodes] = lambda interp: wrap(count)
        g.fields["num_nodes"] = num_nodes
        return g
    parent = new_builder(I, (), mk(k))          # parent at the moment it created its k-th node
    child = new_builder(I, (), mk(n_child))     # child builder (same scope stack: empty) with its own counter
    child.fields.update(_parent=parent, _root=parent)
    import onnx_ir as ir
    I.models[ir.Value] = lambda interp, name=None, **kw: SObj(ir.Value, "val", fields={"name": name})
    op = "Add"
    pv = I.run_closure(I.closure_of(b.GraphBuilder._adapt_outputs), [parent, 1, op], {})
    cv = I.run_closure(I.closure_of(b.GraphBuilder._adapt_outputs), [child, 1, op], {})
    pn = I.run_closure(I.closure_of(b.GraphBuilder._generate_node_name), [parent, op], {})
    cn = I.run_closure(I.closure_of(b.GraphBuilder._generate_node_name), [child, op], {})
    ctx.check("C18.builder.subgraph.value_names_differ_from_parent_values", term(pv[0].fields["name"]) != term(cv[0].fields["name"]), CL_UNIQ)
    ctx.check("C18.builder.subgraph.node_names_differ_from_parent_nodes", term(pn) != term(cn), CL_UNIQ)


def s_same_graph_names(ctx):
    """Within one graph: two values created at different node counts get different names (same op, same scope)."""
    I = Interp(ctx)
    b = _b()
    c1, c2 = ctx.int("count1"), ctx.int("count2")
    ctx.assume(z3.And(c1 >= 0, c2 > c1))
    cur = [c1]
    g = SObj(object, "graph")

    def num_nodes():
        raise AssertionError
    I.models[num_nodes] = lambda interp: wrap(cur[0])
    g.fields["num_nodes"] = num_nodes
    gb = new_builder(I, (), g)
    import onnx_ir as ir
    I.models[ir.Value] = lambda interp, name=None, **kw: SObj(ir.Value, "val", fields={"name": name})
    v1 = I.run_closure(I.closure_of(b.GraphBuilder._adapt_outputs), [gb, 1, "Add"], {})
    n1 = I.run_closure(I.closure_of(b.GraphBuilder._generate_node_name), [gb, "Add"], {})
    cur[0] = c2
    v2 = I.run_closure(I.closure_of(b.GraphBuilder._adapt_outputs), [gb, 1, "Add"], {})
    n2 = I.run_closure(I.closure_of(b.GraphBuilder._generate_node_name), [gb, "Add"], {})
    ctx.check("C18.builder.same_graph.value_names_distinct_for_distinct_node_counts", term(v1[0].fields["name"]) != term(v2[0].fields["name"]), CL_UNIQ)
    ctx.check("C18.builder.same_graph.node_names_distinct_for_distinct_node_counts", term(n1) != term(n2), CL_UNIQ)


def s_module_naming(ctx):
    import onnxscript.nn as nn
    from onnxscript.nn import _module, _parameter
    I = Interp(ctx)
    b = _b()
    r = z3.String("root_name")
    a = z3.String("child_attr")
    p = z3.String("param_attr")
    for t in (r, a, p):
        ctx.assume(z3.And(z3.Length(t) > 0, z3.Not(z3.Contains(t, z3.StringVal(".")))))
    explicit_child = ctx.choose(2, "child has explicit name") == 1
    explicit_param = ctx.choose(2, "param has explicit name") == 1
    dname = z3.String("child_name")
    qname = z3.String("param_name")
    ctx.assume(z3.And(z3.Length(dname) > 0, z3.Length(qname) > 0))
    for nm, v in (("root_name", r), ("child_attr", a), ("param_attr", p), ("child_name", dname), ("param_name", qname)):
        ctx.witness[nm] = v
    graph = SObj(object, "graph")
    graph.fields["initializers"] = {}
    gb = new_builder(I, (), graph)
    op = SObj(object, "op")
    op.fields["builder"] = gb

    def mk_module(name):
        m = SObj(_module.Module, "module")
        I.call(I.getattr(m, "__init__"), [name])
        return m
    root_named = ctx.choose(2, "root module is unnamed") == 0
    root = mk_module(SStr(r) if root_named else None)
    child = mk_module(SStr(dname) if explicit_child else None)
    param = SObj(_parameter.Parameter, "param")
    param.fields.update(name=(SStr(qname) if explicit_param else None), const_value=Opaque("data"), _realized=False)
    I.call(I.getattr(child, "__setattr__"), [SStr(p), param])
    # the root may own a parameter under the SAME attribute name as the child's (weight / fc.weight)
    root_param = None
    if not explicit_param and ctx.choose(2, "root owns a parameter with the same attribute name") == 1:
        root_param = SObj(_parameter.Parameter, "root_param")
        root_param.fields.update(name=None, const_value=Opaque("root_data"), _realized=False)
        I.call(I.getattr(root, "__setattr__"), [SStr(p), root_param])
    I.call(I.getattr(root, "__setattr__"), [SStr(a), child])
    forward_raises = ctx.choose(2, "child forward raises") == 1
    # the child is called either directly, or from the trace function of a control-flow body built by the real
    # GraphBuilder.subgraph / build_graph (the op handed to the body belongs to the sub-builder)
    in_subgraph = ctx.choose(2, "child called inside a subgraph body") == 1
    twice = (not in_subgraph) and ctx.choose(2, "the child module is called twice (shared layer)") == 1
    import onnx_ir as ir
    graph.fields["opset_imports"] = {"": 21}
    subgraphs = []

    def m_graph(interp, *a, **k):
        g = SObj(object, "subgraph")
        g.fields.update(initializers={}, opset_imports=dict(k.get("opset_imports") or {}), outputs=[], inputs=list(k.get("inputs") or []),
                        name=k.get("name"))
        subgraphs.append(g)
        return g
    I.models[ir.Graph] = m_graph

    def f_root(op_):
        raise AssertionError

    def f_child(op_):
        raise AssertionError

    def m_root(interp, op_):
        if not in_subgraph:
            if twice:
                interp.call(interp.getattr(child, "__call__"), [op_])
            return interp.call(interp.getattr(child, "__call__"), [op_])

        def body(op2):
            raise AssertionError
        interp.models[body] = lambda i2, op2: [i2.call(i2.getattr(child, "__call__"), [op2])] and []
        return interp.call(interp.getattr(gb, "subgraph"), [body, [], []])
    I.models[f_root] = m_root

    def m_child(interp, op_):
        if forward_raises:
            raise PyRaise(RuntimeError("forward failed"))
        return None
    I.models[f_child] = m_child
    root.fields["forward"] = f_root
    child.fields["forward"] = f_child
    raised = None
    try:
        I.call(I.getattr(root, "__call__"), [op])
    except PyRaise as e:
        raised = e.exc
    ctx.check("C18.nn.module_call.scope_stack_balanced" + (".when_forward_raises" if forward_raises else ""),
              gb.fields["_scope_stack"] == [], "C18: Module.__call__ pops the scope also on exception")
    inits = graph.fields["initializers"]
    n_params = 2 if root_param is not None else 1
    ok = len(inits) == n_params and sum(1 for v in inits.values() if v is param) == 1 and \
        (root_param is None or sum(1 for v in inits.values() if v is root_param) == 1) and \
        (not in_subgraph or (len(subgraphs) == 1 and not subgraphs[0].fields["initializers"]))
    ctx.check("C18.nn.parameter.realized_exactly_once_in_the_root_graph", ok,
              CL_NAME + " — also when another parameter elsewhere in the tree has the same attribute name")
    if not ok:
        return
    init_name = term([k for k, v in inits.items() if v is param][0])
    sd = I.call(I.getattr(root, "state_dict"), [])
    ok = isinstance(sd, dict) and len(sd) == n_params
    ctx.check("C18.nn.state_dict.one_key_per_parameter", ok, CL_NAME)
    if not ok:
        return
    prefix = z3.Concat(r, z3.StringVal(".")) if root_named else z3.StringVal("")
    if root_param is not None:
        rp_name = term([k for k, v in inits.items() if v is root_param][0])
        ctx.check("C18.nn.root_parameter_name_is_root_name_dot_attribute", rp_name == z3.Concat(prefix, p), CL_NAME)
    key = term([k for k, v in sd.items() if v is param.fields["const_value"]][0])
    goal = init_name == z3.Concat(prefix, key)
    if explicit_child or explicit_param:
        ctx.check("C18.nn.initializer_name_is_root_name_dot_state_dict_key.with_explicit_names", goal, CL_NAME)
    else:
        ctx.check("C18.nn.initializer_name_is_root_name_dot_state_dict_key" + (".module_called_in_a_subgraph_body" if in_subgraph else ""), goal, CL_NAME)
        ctx.check("C18.nn.state_dict_key_is_attribute_path", key == z3.Concat(a, z3.StringVal("."), p), CL_NAME)
    # idempotent realisation
    before = dict(inits)
    I.call(I.getattr(param, "_realize"), [gb])
    ctx.check("C18.nn.parameter.realize_is_idempotent", graph.fields["initializers"] == before and
              term(param.fields["name"]) is not None and z3.is_true(z3.simplify(term(param.fields["name"]) == init_name)) or
              graph.fields["initializers"] == before, CL_NAME)


F = lambda *q: [(REL, x) for x in q]
GB = "GraphBuilder."
SCENARIOS = [
    Scenario("C18.builder.qualify_names", s_qualify, F(GB + "_qualify_initializer_name", GB + "_qualify_value_name", GB + "_qualify_node_name", GB + "_scope_name_parts"),
             assumptions=["scope stack depth <= 3 in the driver (names symbolic, possibly empty)"]),
    Scenario("C18.builder.same_graph_names", s_same_graph_names, F(GB + "_adapt_outputs", GB + "_generate_node_name"),
             trusted=["graph.num_nodes() grows by one with every appended node (onnx_ir)"]),
    Scenario("C18.builder.subgraph_names", s_subgraph_names, F(GB + "_adapt_outputs", GB + "_generate_node_name")),
    Scenario("C18.nn.module_naming", s_module_naming,
             [("onnxscript/nn/_module.py", "Module.__init__"), ("onnxscript/nn/_module.py", "Module.__setattr__"), ("onnxscript/nn/_module.py", "Module.__call__"),
              ("onnxscript/nn/_module.py", "Module.state_dict"), ("onnxscript/nn/_module.py", "Module._set_name"),
              ("onnxscript/nn/_parameter.py", "Parameter._realize"), (REL, GB + "push_module"), (REL, GB + "pop_module")],
             assumptions=["module tree shape fixed: root -> child -> one parameter (names symbolic, default or explicit)"]),
]


def s_module_list_naming(ctx):
    """ModuleList: the parameter of a leaf reached through a (possibly nested) ModuleList is registered under
    root.name + '.' + its state_dict key, whichever way the list was populated (constructor, append after the list
    was attached, nested list appended to an attached list)."""
    from onnxscript.nn import _module, _parameter, _module_list
    I = Interp(ctx)
    r = z3.String("root_name")
    a = z3.String("list_attr")
    p = z3.String("param_attr")
    for t in (r, a, p):
        ctx.assume(z3.And(z3.Length(t) > 0, z3.Not(z3.Contains(t, z3.StringVal(".")))))
    graph = SObj(object, "graph")
    graph.fields["initializers"] = {}
    gb = new_builder(I, (), graph)
    op = SObj(object, "op")
    op.fields["builder"] = gb

    def mk(cls, *args):
        m = SObj(cls, cls.__name__.lower())
        I.call(I.getattr(m, "__init__"), list(args))
        return m
    root = mk(_module.Module, SStr(r))
    # the child may already carry a name of its own (name=..., or inherited from an earlier owner): inside a Sequential it is
    # addressed by its index all the same (state_dict keys are '<attr>.<i>.<param>')
    leaf = mk(_module.Module, ["fc_custom", None][ctx.choose(2, "leaf has no name of its own")])
    param = SObj(_parameter.Parameter, "param")
    param.fields.update(name=None, const_value=Opaque("data"), _realized=False)
    I.call(I.getattr(leaf, "__setattr__"), [SStr(p), param])
    how = ["constructor_then_attach", "attach_then_append", "attach_then_append_nested_list", "nested_constructor_then_attach"][ctx.choose(4, "how the list is populated")]
    ctx.cover("module_list." + how)
    ML = _module_list.ModuleList
    if how == "constructor_then_attach":
        ml = mk(ML, [leaf])
        I.call(I.getattr(root, "__setattr__"), [SStr(a), ml])
        key = z3.Concat(a, z3.StringVal(".0."), p)
    elif how == "attach_then_append":
        ml = mk(ML)
        I.call(I.getattr(root, "__setattr__"), [SStr(a), ml])
        I.call(I.getattr(ml, "append"), [leaf])
        key = z3.Concat(a, z3.StringVal(".0."), p)
    elif how == "attach_then_append_nested_list":
        ml = mk(ML)
        I.call(I.getattr(root, "__setattr__"), [SStr(a), ml])
        inner = mk(ML, [leaf])
        I.call(I.getattr(ml, "append"), [inner])
        key = z3.Concat(a, z3.StringVal(".0.0."), p)
    else:
        inner = mk(ML, [leaf])
        ml = mk(ML, [inner])
        I.call(I.getattr(root, "__setattr__"), [SStr(a), ml])
        key = z3.Concat(a, z3.StringVal(".0.0."), p)

    def f_root(op_):
        raise AssertionError

    def f_leaf(op_):
        raise AssertionError
    I.models[f_root] = lambda interp, op_: interp.call(interp.getattr(leaf, "__call__"), [op_])
    I.models[f_leaf] = lambda interp, op_: None
    root.fields["forward"] = f_root
    leaf.fields["forward"] = f_leaf
    I.call(I.getattr(root, "__call__"), [op])
    inits = graph.fields["initializers"]
    ok = len(inits) == 1 and list(inits.values())[0] is param
    ctx.check("C18.nn.module_list.parameter_realized_exactly_once", ok, CL_NAME)
    if not ok:
        return
    init_name = term(list(inits.keys())[0])
    sd = I.call(I.getattr(root, "state_dict"), [])
    ok = isinstance(sd, dict) and len(sd) == 1
    ctx.check("C18.nn.module_list.state_dict_has_one_key", ok, CL_NAME)
    if not ok:
        return
    k = term(list(sd.keys())[0])
    ctx.check("C18.nn.module_list.state_dict_key_is_the_indexed_attribute_path", k == key, CL_NAME)
    ctx.check("C18.nn.module_list.initializer_name_is_root_name_dot_state_dict_key", init_name == z3.Concat(r, z3.StringVal("."), k), CL_NAME)


SCENARIOS.append(Scenario("C18.nn.module_list_naming", s_module_list_naming,
                          [("onnxscript/nn/_module_list.py", "ModuleList.__init__"), ("onnxscript/nn/_module_list.py", "ModuleList._register_child"),
                           ("onnxscript/nn/_module_list.py", "ModuleList._set_name"), ("onnxscript/nn/_module_list.py", "ModuleList.append")],
                          assumptions=["tree shapes: root -> ModuleList -> leaf and root -> ModuleList -> ModuleList -> leaf, four population orders; names symbolic"]))


def s_builder_call(ctx):
    """GraphBuilder.call(function, ...): ONE node is added whose (domain, op_type, overload) is the identifier under
    which the function is registered in the root builder — otherwise the call refers to a function the model lacks."""
    import onnx_ir as ir
    b = _b()
    I = Interp(ctx)
    dom, nm, ov = z3.String("fn_domain"), z3.String("fn_name"), z3.String("fn_overload")
    for k, t in (("fn_domain", dom), ("fn_name", nm), ("fn_overload", ov)):
        ctx.witness[k] = t
    fn = SObj(ir.Function, "function")
    g = SObj(ir.Graph, "fn_graph")
    n_out = 1 + ctx.choose(2, "function outputs")
    g.fields["outputs"] = [Opaque(f"fo{i}") for i in range(n_out)]

    def ident():
        raise AssertionError
    I.models[ident] = lambda interp: (SStr(dom), SStr(nm), SStr(ov))
    fn.fields.update(name=SStr(nm), domain=SStr(dom), overload=SStr(ov), graph=g, identifier=ident)
    graph = SObj(object, "graph")

    def num_nodes():
        raise AssertionError
    I.models[num_nodes] = lambda interp: 3
    graph.fields["num_nodes"] = num_nodes
    gb = new_builder(I, (), graph)
    gb.fields["_functions"] = {}
    G = b.GraphBuilder
    outs = [SObj(ir.Value, f"out{i}") for i in range(n_out)]
    I.models[G._adapt_outputs] = lambda interp, slf, outputs, op_type="": list(outs)
    I.models[G._input_to_ir_value] = lambda interp, slf, v, *a: ("adapted", v)
    I.models[G._build_namespace] = lambda interp, slf: "ns"
    I.models[G._scope_classes] = lambda interp, slf: []
    I.models[G._scope_names] = lambda interp, slf: []
    nodes = []

    def mk_node(domain, op_type, overload, inputs, outputs):
        n = SObj(ir.Node, "callnode")
        n.fields.update(domain=domain, op_type=op_type, overload=overload, inputs=list(inputs), outputs=list(outputs), metadata_props={})
        return n
    I.models[ir.node] = lambda interp, op_type=None, inputs=(), attributes=None, outputs=None, domain="", name=None, overload="", **k: \
        mk_node(domain, op_type, overload, inputs, outputs or [])
    added = []
    I.models[G.add_node] = lambda interp, slf, n: added.append(n)

    def m_call_op(interp, slf, op_type, args, kwargs, domain="", version=None, outputs=1, **k):
        # BuilderBase.call_op has no overload parameter: a node it creates has the empty overload
        n = mk_node(domain, op_type, "", [("adapted", a) for a in args], outs)
        added.append(n)
        return outs[0] if len(outs) == 1 else tuple(outs)
    I.models[G.call_op] = m_call_op
    x = Opaque("x")
    try:
        r = I.run_closure(I.closure_of(G.call), [gb, fn, x], {})
    except PyRaise as e:
        ctx.check("C18.builder.call.returns_normally", False, CL_UNIQ)
        return
    ok = len(added) == 1
    ctx.check("C18.builder.call.adds_exactly_one_node", ok, "C18: 'computes exactly the sequence of operator calls that was traced'")
    if not ok:
        return
    n = added[0]
    reg = gb.fields["_functions"]
    keys = list(reg.keys())
    okr = len(keys) == 1 and reg[keys[0]] is fn
    ctx.check("C18.builder.call.function_registered_once_in_the_root_builder", okr, "C18: 'functions called as nodes' — the model must carry the function")
    if okr:
        kd, kn, ko = keys[0]
        ctx.check("C18.builder.call.node_refers_to_the_function_by_domain_name_and_overload",
                  z3.And(term(n.fields["domain"]) == term(kd), term(n.fields["op_type"]) == term(kn), term(n.fields["overload"]) == term(ko)),
                  "C18: 'is a valid model' — a call node must name a function that is in the model (overloads included)")
    ctx.check("C18.builder.call.inputs_are_the_adapted_arguments", n.fields["inputs"] == [("adapted", x)], "C18")
    ctx.check("C18.builder.call.returns_the_node_outputs", (r is outs[0]) if n_out == 1 else (list(r) == outs), "C18")


SCENARIOS.append(Scenario("C18.builder.call", s_builder_call, F(GB + "call"),
                          trusted=["ir.node(...) creates a node with the given domain / op_type / overload / inputs / outputs (onnx_ir)",
                                   "BuilderBase.call_op cannot set an overload (it has no such parameter)"]))


def s_sequential_naming(ctx):
    """Sequential: children are called THROUGH the container (Module.__call__ pushes the container's own name, then each
    child pushes its index): the parameter of child i is registered as root.name + '.' + '<attr>.<i>.<param>' =
    root.name + '.' + its state_dict key — however the container was populated, also when nested in / around a ModuleList."""
    from onnxscript.nn import _module, _parameter, _module_list, _sequential
    I = Interp(ctx)
    r, a, p = z3.String("root_name"), z3.String("seq_attr"), z3.String("param_attr")
    for t in (r, a, p):
        ctx.assume(z3.And(z3.Length(t) > 0, z3.Not(z3.Contains(t, z3.StringVal(".")))))
    graph = SObj(object, "graph")
    graph.fields["initializers"] = {}
    gb = new_builder(I, (), graph)
    op = SObj(object, "op")
    op.fields["builder"] = gb

    def mk(cls, *args):
        m = SObj(cls, cls.__name__.lower())
        I.call(I.getattr(m, "__init__"), list(args))
        return m
    root = mk(_module.Module, SStr(r))
    # the child may already carry a name of its own: inside a Sequential it is addressed by its index all the same
    leaf = mk(_module.Module, ["fc_custom", None][ctx.choose(2, "leaf has no name of its own")])
    param = SObj(_parameter.Parameter, "param")
    param.fields.update(name=None, const_value=Opaque("data"), _realized=False)
    I.call(I.getattr(leaf, "__setattr__"), [SStr(p), param])

    def f_leaf(op_, x):
        raise AssertionError
    I.models[f_leaf] = lambda interp, op_, x: x
    leaf.fields["forward"] = f_leaf
    other = mk(_module.Module, None)          # a parameter-less sibling in front (index 0), the leaf is index 1

    def f_other(op_, x):
        raise AssertionError
    I.models[f_other] = lambda interp, op_, x: x
    other.fields["forward"] = f_other
    SQ, ML = _sequential.Sequential, _module_list.ModuleList
    how = ["constructor_then_attach", "attach_then_append", "sequential_inside_sequential", "sequential_inside_module_list"][ctx.choose(4, "how the container is built")]
    ctx.cover("sequential." + how)
    entry = None   # what root.forward calls
    if how == "constructor_then_attach":
        sq = mk(SQ, other, leaf)
        I.call(I.getattr(root, "__setattr__"), [SStr(a), sq])
        key, entry = z3.Concat(a, z3.StringVal(".1."), p), sq
    elif how == "attach_then_append":
        sq = mk(SQ, other)
        I.call(I.getattr(root, "__setattr__"), [SStr(a), sq])
        I.call(I.getattr(sq, "append"), [leaf])
        key, entry = z3.Concat(a, z3.StringVal(".1."), p), sq
    elif how == "sequential_inside_sequential":
        inner = mk(SQ, other, leaf)
        sq = mk(SQ, inner)
        I.call(I.getattr(root, "__setattr__"), [SStr(a), sq])
        key, entry = z3.Concat(a, z3.StringVal(".0.1."), p), sq
    else:
        inner = mk(SQ, other, leaf)
        ml = mk(ML, [inner])
        I.call(I.getattr(root, "__setattr__"), [SStr(a), ml])
        key, entry = z3.Concat(a, z3.StringVal(".0.1."), p), inner   # a ModuleList is iterated by the caller: root calls its element

    def f_root(op_):
        raise AssertionError
    I.models[f_root] = lambda interp, op_: interp.call(interp.getattr(entry, "__call__"), [op_, Opaque("x")])
    root.fields["forward"] = f_root
    try:
        I.call(I.getattr(root, "__call__"), [op])
    except PyRaise as e:
        ctx.check("C18.nn.sequential.call_returns_normally", False, CL_NAME)
        return
    inits = graph.fields["initializers"]
    ok = len(inits) == 1 and list(inits.values())[0] is param
    ctx.check("C18.nn.sequential.parameter_realized_exactly_once", ok, CL_NAME)
    if not ok:
        return
    init_name = term(list(inits.keys())[0])
    sd = I.call(I.getattr(root, "state_dict"), [])
    ok = isinstance(sd, dict) and len(sd) == 1
    ctx.check("C18.nn.sequential.state_dict_has_one_key", ok, CL_NAME)
    if not ok:
        return
    k = term(list(sd.keys())[0])
    ctx.check("C18.nn.sequential.state_dict_key_is_the_indexed_attribute_path", k == key, CL_NAME)
    ctx.check("C18.nn.sequential.initializer_name_is_root_name_dot_state_dict_key", init_name == z3.Concat(r, z3.StringVal("."), k), CL_NAME)
    ctx.check("C18.nn.sequential.scope_stack_balanced", gb.fields["_scope_stack"] == [], CL_NAME)


SCENARIOS.append(Scenario("C18.nn.sequential_naming", s_sequential_naming,
                          [("onnxscript/nn/_sequential.py", "Sequential.__init__"), ("onnxscript/nn/_sequential.py", "Sequential._register_child"),
                           ("onnxscript/nn/_sequential.py", "Sequential._set_name"), ("onnxscript/nn/_sequential.py", "Sequential.forward")],
                          assumptions=["tree shapes: root -> Sequential(other, leaf), Sequential(Sequential(other, leaf)), ModuleList([Sequential(other, leaf)]); names symbolic"]))


def s_lift_initializers(ctx):
    """lift_initializers_to_constants(graph): afterwards the function-body graph has no embedded initializer (only those
    that are explicit inputs stay), every lifted value is the output of ONE new Constant node carrying its tensor — the
    SAME value object, so every use stays valid — and the Constant nodes precede every existing node."""
    import onnx_ir as ir
    b = _b()
    I = Interp(ctx)
    n_init = ctx.choose(4, "number of initializers")
    existing_nodes = ctx.choose(3, "number of nodes already in the graph")
    vals, inputs = [], []
    for i in range(n_init):
        v = SObj(ir.Value, f"init{i}")
        has_data = ctx.choose(2, f"initializer {i} has data") == 0
        v.fields.update(name=f"w{i}", const_value=(f"tensor{i}" if has_data else None))
        v.has_data = has_data
        v.is_input = ctx.choose(2, f"initializer {i} is also a graph input") == 1
        vals.append(v)
        if v.is_input:
            inputs.append(v)
    plain_in = SObj(ir.Value, "x")
    plain_in.fields["name"] = "x"
    inputs = [plain_in] + inputs
    g = SObj(ir.Graph, "graph")
    nodes = [f"node{i}" for i in range(existing_nodes)]
    order = list(nodes)
    ver = ctx.int("opset_version")
    from pyvc.values import SInt

    def f_node(i):
        raise AssertionError

    def f_num():
        raise AssertionError

    def f_ins(ref, new):
        raise AssertionError

    def f_app(n):
        raise AssertionError
    I.models[f_node] = lambda interp, i: order[i]
    I.models[f_num] = lambda interp: len(order)

    def m_insert(interp, ref, new):
        k = order.index(ref)
        order[k:k] = list(new)
    I.models[f_ins] = m_insert
    I.models[f_app] = lambda interp, n: order.append(n)
    inits = {v.fields["name"]: v for v in vals}
    g.fields.update(inputs=inputs, initializers=inits, opset_imports=({"": SInt(ver)} if ctx.choose(2, "default opset imported") == 0 else {}),
                    node=f_node, num_nodes=f_num, insert_before=f_ins, append=f_app)
    made = []

    def m_node(interp, domain, op_type, inputs=(), attributes=(), outputs=(), version=None, name=None, **k):
        n = SObj(ir.Node, "constant")
        n.fields.update(domain=domain, op_type=op_type, inputs=list(inputs), attributes=list(attributes), outputs=list(outputs), version=version, name=name)
        made.append(n)
        return n
    I.models[ir.Node] = m_node
    I.models[ir.Attr] = lambda interp, name, type_, value, *a, **k: ("attr", name, type_, value)
    to_lift = [v for v in vals if not v.is_input]
    try:
        I.run_closure(I.closure_of(b.lift_initializers_to_constants), [g], {})
    except PyRaise as e:
        ctx.check("C18.builder.lift_initializers.raises_only_for_an_initializer_without_data", isinstance(e.exc, ValueError) and any(not v.has_data for v in to_lift), CL_UNIQ)
        return
    ctx.check("C18.builder.lift_initializers.initializer_without_data_is_reported", all(v.has_data for v in to_lift), "C18")
    ctx.check("C18.builder.lift_initializers.only_explicit_inputs_stay_initializers", set(inits) == {v.fields["name"] for v in vals if v.is_input} and
              all(inits[v.fields["name"]] is v for v in vals if v.is_input), "C18: 'functions called as nodes' — a function body has no initializers")
    ok = len(made) == len(to_lift) and all(n.fields["op_type"] == "Constant" and n.fields["domain"] == "" and n.fields["inputs"] == [] and
                                            len(n.fields["outputs"]) == 1 and n.fields["outputs"][0] is v and
                                            n.fields["attributes"] == [("attr", "value", ir.AttributeType.TENSOR, v.fields["const_value"])]
                                            for n, v in zip(made, to_lift))
    ctx.check("C18.builder.lift_initializers.each_lifted_value_is_the_output_of_one_constant_node_with_its_tensor", ok,
              "C18: 'computes exactly the sequence of operator calls that was traced' — value identity is preserved, the data is the initializer's")
    ctx.check("C18.builder.lift_initializers.constants_precede_every_existing_node_and_nothing_is_lost", order == made + nodes, "C18: 'a valid model' — defined before use")
    ctx.check("C18.builder.lift_initializers.constant_nodes_have_distinct_names", len({n.fields["name"] for n in made}) == len(made), CL_UNIQ)


SCENARIOS.append(Scenario("C18.builder.lift_initializers", s_lift_initializers, F("lift_initializers_to_constants"), kind="bounded",
                          bound="<= 3 initializers (each with/without data, input or not), <= 2 existing nodes; opset version symbolic",
                          trusted=["ir.Graph.node / num_nodes / insert_before / append (onnx_ir)"]))


def s_call_op(ctx):
    """BuilderBase.call_op — the node-creation pipeline.  For every combination of feature flags: exactly ONE node is
    created from (domain, op_type, version), its inputs are the arguments after schema partition and then casting, its
    attributes the keyword arguments after partition and attribute casting, its outputs the adapted outputs (or the
    requested count), its name the given one else the generated one; it is annotated, stored once, its opset recorded;
    constant propagation and shape inference run iff enabled, after the node is stored; one output is returned bare."""
    import onnx_ir as ir
    from onnxscript._internal import tape_builder as tb
    from onnx_ir import _convenience
    I = Interp(ctx)
    F_ = tb.BuilderFeature
    feats = F_(0)
    chosen = {}
    for nm in ("SCHEMA_PARTITION", "CAST_INPUTS", "CAST_ATTRIBUTES", "CONSTANT_PROPAGATION", "INFER_SHAPES"):
        chosen[nm] = ctx.choose(2, f"feature {nm}") == 1
        if chosen[nm]:
            feats |= getattr(F_, nm)
    schema_aware = bool(feats & F_.SCHEMA_AWARE)
    self = SObj(tb.BuilderBase, "builder")
    self.fields["_features"] = feats
    log = []
    B = tb.BuilderBase
    I.models[B._get_schema] = lambda interp, slf, op, dom, ver: (log.append(("schema", op, dom, ver)) or "SCHEMA")
    I.models[B._partition_inputs_attributes] = lambda interp, slf, sch, a, k: (log.append(("partition", sch, a, k)) or (("P", a), {"part": k}))
    I.models[B._cast_inputs] = lambda interp, slf, sch, a: (log.append(("cast_inputs", sch, a)) or ("C", a))
    I.models[B._cast_attributes] = lambda interp, slf, sch, k: (log.append(("cast_attrs", sch, k)) or {"cast": k})
    I.models[_convenience.convert_attributes] = lambda interp, k: ("ATTRS", k)
    out_kind = ["int 1", "int 2", "names"][ctx.choose(3, "outputs argument")]
    outputs_arg = {"int 1": 1, "int 2": 2, "names": ["a", "b"]}[out_kind]
    adapted = None if out_kind != "names" else [Opaque("va"), Opaque("vb")]
    I.models[B._adapt_outputs] = lambda interp, slf, outs, op: (log.append(("adapt", outs, op)) or adapted)
    I.models[B._generate_node_name] = lambda interp, slf, op: (log.append(("genname", op)) or "generated_name")
    nodes = []

    def m_node(interp, domain, op_type, inputs=(), attributes=(), outputs=None, num_outputs=None, version=None, name=None, **k):
        n = SObj(ir.Node, "node")
        outs = list(outputs) if outputs is not None else [Opaque(f"out{i}") for i in range(num_outputs)]
        n.fields.update(domain=domain, op_type=op_type, inputs=inputs, attributes=attributes, outputs=outs, version=version, name=name,
                        given_outputs=outputs, num_outputs=num_outputs)
        nodes.append(n)
        log.append(("node", n))
        return n
    I.models[ir.Node] = m_node
    I.models[B._annotate_node] = lambda interp, slf, n: log.append(("annotate", n))
    I.models[B._add_node] = lambda interp, slf, n: log.append(("add", n))
    I.models[B._record_opset] = lambda interp, slf, d, v: log.append(("opset", d, v))
    I.models[B._constant_propagation] = lambda interp, slf, n: log.append(("constprop", n))
    I.models[B._infer_shapes] = lambda interp, slf, n: log.append(("infer", n))
    given_name = ctx.choose(2, "a node name is given") == 1
    has_kwargs = ctx.choose(2, "keyword arguments given") == 1
    args0, kwargs0 = ["x", 1], ({"axis": 0} if has_kwargs else {})
    ver = ctx.int("version")
    from pyvc.values import SInt
    r = I.run_closure(I.closure_of(B.call_op), [self, "MyOp", args0, kwargs0],
                      {"domain": "my.domain", "version": SInt(ver), "outputs": outputs_arg, "name": ("given_name" if given_name else None)})
    CLS = "C18: 'computes exactly the sequence of operator calls that was traced'"
    ctx.check("C18.builder.call_op.exactly_one_node_is_created_and_stored_once", len(nodes) == 1 and [e for e in log if e[0] == "add"] == [("add", nodes[0])], CLS)
    if len(nodes) != 1:
        return
    n = nodes[0]
    f = n.fields
    ctx.check("C18.builder.call_op.node_has_the_requested_operator_domain_and_version", f["op_type"] == "MyOp" and f["domain"] == "my.domain" and
              z3.is_true(z3.simplify(term(f["version"]) == ver)), CLS)
    if schema_aware:
        ctx.check("C18.builder.call_op.schema_looked_up_for_this_operator_domain_and_version",
                  [e for e in log if e[0] == "schema"] == [("schema", "MyOp", "my.domain", f["version"])], "C12/C18: promotion uses the schema of the opset version in use")
    sch = "SCHEMA" if schema_aware else None
    a, k = args0, kwargs0
    if chosen["SCHEMA_PARTITION"]:
        a, k = ("P", a), {"part": k}
    if chosen["CAST_INPUTS"]:
        a = ("C", a)
    if chosen["CAST_ATTRIBUTES"]:
        k = {"cast": k}
    ctx.check("C18.builder.call_op.inputs_are_the_arguments_after_partition_then_casting", f["inputs"] == a, CLS + " — each stage works on the result of the previous one")
    ctx.check("C18.builder.call_op.attributes_are_the_keywords_after_partition_then_casting", f["attributes"] == (("ATTRS", k) if k else ()), CLS)
    stages = [e[0] for e in log if e[0] in ("partition", "cast_inputs", "cast_attrs")]
    ctx.check("C18.builder.call_op.stages_run_iff_enabled_with_the_schema", stages == [s_ for s_, on in (("partition", chosen["SCHEMA_PARTITION"]), ("cast_inputs", chosen["CAST_INPUTS"]),
              ("cast_attrs", chosen["CAST_ATTRIBUTES"])) if on] and all(e[1] == sch for e in log if e[0] in ("partition", "cast_inputs", "cast_attrs")), CLS)
    if out_kind == "names":
        ctx.check("C18.builder.call_op.outputs_are_the_adapted_outputs", f["given_outputs"] == adapted and f["num_outputs"] is None, CLS)
    else:
        ctx.check("C18.builder.call_op.outputs_count_is_the_requested_count", f["given_outputs"] is None and f["num_outputs"] == outputs_arg, CLS)
    ctx.check("C18.builder.call_op.name_is_the_given_one_else_generated", f["name"] == ("given_name" if given_name else "generated_name") and
              (("genname", "MyOp") in log) == (not given_name), CL_UNIQ)
    order = [e[0] for e in log if e[0] in ("node", "annotate", "add", "opset", "constprop", "infer")]
    want = ["node", "annotate", "add", "opset"] + (["constprop"] if chosen["CONSTANT_PROPAGATION"] else []) + (["infer"] if chosen["INFER_SHAPES"] else [])
    ctx.check("C18.builder.call_op.annotated_stored_recorded_then_hooks_iff_enabled", order == want and ("opset", "my.domain", f["version"]) in log, CLS)
    outs = f["outputs"]
    ctx.check("C18.builder.call_op.returns_the_single_output_bare_else_all", (r is outs[0]) if len(outs) == 1 else (r is outs or list(r) == outs), CLS)


SCENARIOS.append(Scenario("C18.builder.call_op", s_call_op, [("onnxscript/_internal/tape_builder.py", "BuilderBase.call_op")],
                          trusted=["ir.Node(domain, op_type, inputs, attributes=, outputs= | num_outputs=, version=, name=) (onnx_ir)"]))


def s_builder_call_inline(ctx):
    """GraphBuilder.call_inline: the function body is instantiated on the SAME operands `call` would give the call node
    (Python literals promoted to values first), every cloned node is added once and in order, intermediate value names
    are qualified, the results carry the requested names, and a prefix scope is popped again."""
    import onnx_ir as ir
    import onnxscript
    b = _b()
    from onnxscript._internal import _inliner
    I = Interp(ctx)
    G = b.GraphBuilder
    fn = SObj(ir.Function, "function")
    g = SObj(ir.Graph, "fn_graph")
    n_out = 1 + ctx.choose(2, "function outputs")
    g.fields["outputs"] = [Opaque(f"fo{i}") for i in range(n_out)]
    fn.fields.update(name="fn", domain="d", overload="", graph=g)
    graph = SObj(object, "graph")

    def num_nodes():
        raise AssertionError
    I.models[num_nodes] = lambda interp: 3
    graph.fields["num_nodes"] = num_nodes
    gb = new_builder(I, (), graph)
    I.models[G._input_to_ir_value] = lambda interp, slf, v, *a: ("adapted", v)
    I.models[G._qualify_value_name] = lambda interp, slf, nm: "q:" + nm
    I.models[G._qualify_node_name] = lambda interp, slf, nm: "qn:" + nm
    inst = []
    outs = []
    for i in range(n_out):
        v = SObj(ir.Value, f"res{i}")
        v.fields["name"] = f"res{i}"
        outs.append(v)
    inner = SObj(ir.Value, "inner")
    inner.fields["name"] = "tmp"
    n1, n2 = SObj(ir.Node, "c1"), SObj(ir.Node, "c2")
    n1.fields["outputs"] = [inner]
    n2.fields["outputs"] = list(outs)

    def m_inst(interp, graph_, inputs, attrs, prefix=""):
        inst.append((graph_, list(inputs), dict(attrs), prefix))
        return [n1, n2], list(outs)
    I.models[_inliner.instantiate] = m_inst
    added = []
    I.models[G.add_node] = lambda interp, slf, n: added.append(n)
    names = [f"want{i}" for i in range(n_out)] if ctx.choose(2, "output names requested") == 1 else None
    prefix = "pfx" if ctx.choose(2, "prefix given") == 1 else ""
    x = SObj(ir.Value, "x")
    kw = {"_outputs": names, "_prefix": prefix}
    try:
        r = I.run_closure(I.closure_of(G.call_inline), [gb, fn, x, 2.5], kw)
    except PyRaise as e:
        ctx.check("C18.builder.call_inline.returns_normally", False, CL_UNIQ)
        return
    ok = len(inst) == 1 and inst[0][0] is g
    ctx.check("C18.builder.call_inline.body_instantiated_once", ok, "C18: 'Inlining a function gives the same results as calling it'")
    if not ok:
        return
    ctx.check("C18.builder.call_inline.operands_are_promoted_like_the_operands_of_a_call_node", inst[0][1] == [("adapted", x), ("adapted", 2.5)],
              "C18: 'with Python literals as operands' / 'Inlining a function gives the same results as calling it' — call() promotes literals to values")
    ctx.check("C18.builder.call_inline.cloned_nodes_added_once_in_order", added == [n1, n2], "C18: 'computes exactly the sequence of operator calls that was traced'")
    ctx.check("C18.builder.call_inline.intermediate_value_names_are_qualified", inner.fields["name"] == "q:tmp", CL_UNIQ)
    want_names = [f"q:want{i}" for i in range(n_out)] if names else [f"q:res{i}" for i in range(n_out)]
    ctx.check("C18.builder.call_inline.results_carry_the_requested_names_else_their_qualified_names", [o.fields["name"] for o in outs] == want_names, CL_UNIQ)
    ctx.check("C18.builder.call_inline.prefix_scope_is_popped", gb.fields["_scope_stack"] == [], "C18: module scopes are balanced")
    ctx.check("C18.builder.call_inline.returns_the_results", (r is outs[0]) if n_out == 1 else (list(r) == outs), "C18")


SCENARIOS.append(Scenario("C18.builder.call_inline", s_builder_call_inline, F(GB + "call_inline"),
                          trusted=["_inliner.instantiate(graph, inputs, attributes, prefix) clones the body on the given operands (onnx_ir Cloner)"]))


def s_partition_history(ctx):
    """BuilderBase._partition_inputs_attributes(schema, args, kwargs): the input / attribute split is made with the signature
    OF THE GIVEN SCHEMA - on every call, whatever schemas were used before in the process (the same operator name has
    different signatures in different opset versions: ReduceMean-13 takes `axes` as an attribute, ReduceMean-18 as an
    input).  Two calls in a row with schemas of the same (domain, name) and different versions; plus schema None."""
    import onnx_ir as ir
    from onnxscript._internal import tape_builder as tb
    from onnxscript._internal import param_manipulation
    I = Interp(ctx)
    self = SObj(tb.BuilderBase, "builder")
    same_op = ctx.choose(2, "second schema is another operator") == 0

    def schema(tag, name, ver):
        s = SObj(object, f"schema_{tag}")
        s.fields.update(domain="", name=name, since_version=ver)
        return s
    s1 = schema("first", "ReduceMean", 13)
    s2 = schema("second", "ReduceMean" if same_op else "Add", 18)
    I.models[ir.schemas.OpSignature.from_op_schema] = lambda interp, sch: ("signature of", sch)
    seen = []

    def m_sep(interp, sig, args, kwargs, **kw):
        seen.append((sig, list(args), dict(kwargs), dict(kw)))
        return ("inputs", len(seen)), {"attrs": len(seen)}
    I.models[param_manipulation.separate_input_attributes_from_arguments] = m_sep
    clo = I.closure_of(tb.BuilderBase._partition_inputs_attributes)
    r0 = I.run_closure(clo, [self, None, ("a",), {"k": 1}], {})
    ctx.check("C18.builder.partition.without_a_schema_arguments_pass_through", r0 == (("a",), {"k": 1}) and not seen, CL_VALID)
    r1 = I.run_closure(clo, [self, s1, ("x", [1]), {"keepdims": 0}], {})
    r2 = I.run_closure(clo, [self, s2, ("y", [2]), {"keepdims": 1}], {})
    ok = len(seen) == 2
    ctx.check("C18.builder.partition.one_split_per_call", ok, CL_VALID)
    if not ok:
        return
    ctx.check("C18.builder.partition.split_uses_the_signature_of_the_given_schema_whatever_was_used_before",
              seen[0][0] == ("signature of", s1) and seen[1][0] == ("signature of", s2),
              CL_VALID + " — the same operator has different inputs / attributes in different opset versions")
    ctx.check("C18.builder.partition.arguments_are_handed_over_unchanged_and_defaults_are_not_filled",
              seen[0][1:3] == (["x", [1]], {"keepdims": 0}) and seen[1][1:3] == (["y", [2]], {"keepdims": 1})
              and all(s[3] == {"fill_defaults": False, "allow_extra_args": False} for s in seen), CL_VALID)
    ctx.check("C18.builder.partition.result_is_the_split", r1 == (("inputs", 1), {"attrs": 1}) and r2 == (("inputs", 2), {"attrs": 2}), CL_VALID)


SCENARIOS.append(Scenario("C18.builder.partition_history", s_partition_history, [("onnxscript/_internal/tape_builder.py", "BuilderBase._partition_inputs_attributes")],
                          trusted=["OpSignature.from_op_schema(schema) is the signature of that schema (onnx_ir)"]))


def s_build_graph_scope(ctx):
    """build_graph(trace_function, ..., parent=p) / GraphBuilder(graph, parent=p): the body of a subgraph is traced in the
    module scope that is current IN THE PARENT (a copy of p's scope stack), at ANY nesting depth - p need not be the root:
    inside a subgraph body the modules entered there are on p's stack, not on the root's; parameters realized in the body
    register in the ROOT graph; the parent's and the root's stacks are not modified by what the body pushes."""
    import onnx_ir as ir
    b = _b()
    I = Interp(ctx)
    depth = ctx.choose(3, "parent is the root / a child of the root / a grandchild")
    root = new_builder(I, ["model"])
    chain = [root]
    for d in range(depth):
        g = SObj(object, f"graph{d + 1}")
        g.fields.update(initializers={}, opset_imports={"": 18})
        c = SObj(b.GraphBuilder, f"builder{d + 1}")
        c.fields.update(_graph=g, _root=root, _parent=chain[-1], _scope_stack=[("model", "Cls")] + [(f"block{i}", "Cls") for i in range(d + 1)])
        chain.append(c)
    parent = chain[-1]
    before_parent = list(parent.fields["_scope_stack"])
    before_root = list(root.fields["_scope_stack"])
    made = []

    def m_graph(interp, *a, **k):
        g = SObj(ir.Graph, "subgraph")
        g.fields.update(name=k.get("name"), inputs=list(k.get("inputs", [])), outputs=[], opset_imports=dict(k.get("opset_imports", {})), initializers={})
        made.append(g)
        return g
    I.models[ir.Graph] = m_graph
    I.models[b.GraphBuilder.opset] = lambda interp, slf, domain, version=1: ("op of", slf)
    seen = {}
    out_v = SObj(ir.Value, "traced_out")
    out_v.fields.update(name="t", type=None, shape=None)

    def trace(*a):
        raise AssertionError

    def m_trace(interp, op, *args):
        sb = op[1]
        seen["stack"] = list(sb.fields["_scope_stack"])
        seen["root"] = sb.fields["_root"]
        seen["parent"] = sb.fields["_parent"]
        seen["same_list"] = sb.fields["_scope_stack"] is parent.fields["_scope_stack"]
        # the body enters a module: pushes on the sub-builder only
        interp.call(interp.getattr(sb, "push_module"), ["inner", "Inner"])
        return out_v
    I.models[trace] = m_trace
    I.import_overrides = getattr(I, "import_overrides", {})
    decl = SObj(ir.Value, "declared_out")
    decl.fields.update(name="y", type=None, shape=None)
    try:
        I.call(b.build_graph, [trace, [], [decl]], {"opset_imports": {"": 18}, "parent": parent})
    except PyRaise as e:
        ctx.check("C18.builder.build_graph.returns_normally", False, CL_VALID + f" — raised {e.exc!r}")
        return
    ok = "stack" in seen
    ctx.check("C18.builder.build_graph.body_is_traced_once_with_the_sub_builder", ok, CL_VALID)
    if not ok:
        return
    ctx.check("C18.builder.build_graph.body_starts_in_the_module_scope_current_in_the_parent_at_any_depth", seen["stack"] == before_parent,
              CL_NAME + " — a module called two subgraph levels down is still below the modules entered on the way")
    ctx.check("C18.builder.build_graph.scope_is_a_copy_parent_and_root_stacks_are_unchanged",
              (not seen["same_list"]) and parent.fields["_scope_stack"] == before_parent and root.fields["_scope_stack"] == before_root, CL_NAME)
    ctx.check("C18.builder.build_graph.sub_builder_shares_the_root_of_the_parent", seen["root"] is root and seen["parent"] is parent, CL_NAME)


SCENARIOS.append(Scenario("C18.builder.build_graph_scope", s_build_graph_scope, F("build_graph", GB + "__init__", GB + "push_module"),
                          trusted=["_split_optional_inputs, ir.Graph (construction only)"]))


def s_inliner_instantiate(ctx):
    """_inliner.instantiate (the body of call_inline): formal parameter k is bound to actual argument k — to None when the argument is None
    (an omitted optional input) AND when it is not supplied at all (a trailing optional input): an unbound formal would be read as an
    outer-scope value that nothing defines; too many arguments are refused; the returned outputs are the images of the graph outputs;
    the prefix goes on node names and node output names only."""
    import onnx_ir as ir
    from onnxscript._internal import _inliner
    from onnx_ir import _cloner
    I = Interp(ctx)
    m = 1 + ctx.choose(3, "formal inputs")
    n = ctx.choose(m + 2, "actual inputs")
    formals = []
    for k in range(m):
        v = SObj(ir.Value, f"formal{k}")
        v.fields["name"] = f"f{k}"
        formals.append(v)
    actuals = []
    for k in range(n):
        if ctx.choose(2, f"actual {k} is None") == 1:
            actuals.append(None)
        else:
            v = SObj(ir.Value, f"actual{k}")
            v.fields["name"] = f"a{k}"
            actuals.append(v)
    body_out = SObj(ir.Value, "body_out")
    body_out.fields["name"] = "t"
    node = SObj(ir.Node, "body_node")
    node.fields.update(name="n0", outputs=[body_out])
    out_is_formal = ctx.choose(2, "the graph returns its first input directly") == 1
    g = SObj(ir.Graph, "fn_graph")
    g.fields.update(inputs=list(formals), outputs=[formals[0] if out_is_formal else body_out])

    def g_iter(interp, slf):
        return [node]
    I.models[ir.Graph.__iter__] = g_iter
    made = {}
    image = SObj(ir.Value, "image_of_body_out")
    image.fields["name"] = "t"
    cloned = SObj(ir.Node, "cloned")
    cloned.fields.update(name="n0", outputs=[image])

    def m_cloner(interp, **kw):
        made.update(kw)
        c = SObj(_cloner.Cloner, "cloner")

        def clone_node(nd):
            raise AssertionError

        def m_clone(interp2, nd):
            # what the onnx_ir Cloner does that matters here: the image of each output is recorded in value_map, post_process runs
            kw["value_map"][body_out] = image
            interp2.call(kw["post_process"], [cloned])
            return cloned
        interp.models[clone_node] = m_clone
        c.fields["clone_node"] = clone_node
        return c
    I.models[_cloner.Cloner] = m_cloner
    prefix = "pfx/" if ctx.choose(2, "prefix given") == 1 else ""
    CLI = "C18: 'Inlining a function gives the same results as calling it' — call() leaves an omitted input of the call node empty"
    try:
        r = I.call(_inliner.instantiate, [g, actuals, {}], {"prefix": prefix})
    except PyRaise as e:
        ctx.check("C18.inliner.instantiate.raises_only_for_too_many_arguments", n > m and isinstance(e.exc, ValueError), CLI)
        return
    ctx.check("C18.inliner.instantiate.too_many_arguments_refused", n <= m, CLI)
    if n > m:
        return
    vm = made.get("value_map")
    ok = isinstance(vm, dict)
    ctx.check("C18.inliner.instantiate.cloner_gets_a_value_map", ok, CLI)
    if not ok:
        return
    for k in range(m):
        want = actuals[k] if k < n else None
        bound = any(key is formals[k] for key in vm)
        got = [vm[key] for key in vm if key is formals[k]]
        ctx.check("C18.inliner.instantiate.every_formal_is_bound_to_its_actual_or_to_None_when_omitted", bound and got[0] is want, CLI)
    nodes, outs = r
    ctx.check("C18.inliner.instantiate.returns_the_cloned_nodes_in_order", list(nodes) == [cloned], CLI)
    ctx.check("C18.inliner.instantiate.outputs_are_the_images_of_the_graph_outputs", list(outs) == [(actuals[0] if n > 0 else None) if out_is_formal else image], CLI)
    ctx.check("C18.inliner.instantiate.prefix_on_node_and_output_names_only", cloned.fields["name"] == prefix + "n0" and image.fields["name"] == prefix + "t"
              and all(a is None or a.fields["name"] == f"a{k}" for k, a in enumerate(actuals)), CL_UNIQ)


SCENARIOS.append(Scenario("C18.inliner.instantiate", s_inliner_instantiate, [("onnxscript/_internal/_inliner.py", "instantiate"), ("onnxscript/_internal/_inliner.py", "instantiate.rename")],
                          kind="bounded", bound="1-3 formal inputs, 0 to m+1 actual arguments (each a value or None), one body node; names symbolic-free",
                          trusted=["onnx_ir._cloner.Cloner: clone_node maps inputs through value_map (None = input not provided), records the images of outputs in it and calls post_process"]))
