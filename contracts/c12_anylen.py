"""C12 — autocast.cast_inputs and tape_builder.BuilderBase._cast_inputs for signatures and argument lists of ANY length.

The bounded scenarios of c12_autocast.py enumerate <= 3 formals and <= 4 arguments.  Here the number of formal inputs m >= 1 and the
number of arguments n >= 0 are symbolic integers; formals and arguments are uninterpreted functions of their position:

    tv(k)  type-variable string of formal k      variadic(k), homog(k)  its flags
    typed(i)  argument i carries type information (a tensor / ir.Value, not a literal)      info(i)  that information (an id)

The loop of the real function is verified with an inductive invariant (init / preserve / use) whose state is
  * `args_typevars` (a list built by append): one entry per completed iteration; entry j0 is (argument j0, its type variable or None),
  * `type_bindings` (a dict keyed by symbolic strings, pyvc SMap): for the type variable T0 of position j0 — bound once an iteration
     k0 < k bound it; a bound value is the information of a typed sibling `wit(k)` that shares T0,
for ONE arbitrary argument position j0 and ONE arbitrary potential binder k0 (Skolem constants fixed before the call): quantifier-free.
The "bound value is the type of SOME typed sibling" clause is existential: it is assumed at a Skolem witness `wit(k)` and proved by
offering the two candidates {old witness, the argument just visited} — so both "first binder wins" (builder) and "last binder wins"
(autocast) satisfy it, as the property demands no more than "the type of the sibling operand that shares its type constraint".
"""
from __future__ import annotations

import z3

from pyvc.harness import Scenario
from pyvc.interp import Interp, PyRaise, LoopSpec, SMap
from pyvc.values import SObj, SStr, SInt, SBool, SSeq, term, wrap

CL = "C12: 'the type of the sibling operand that shares its type constraint when there is one, otherwise INT64, FLOAT or BOOL by Python type'"
AUTOCAST = "onnxscript/_internal/autocast.py"
TAPE = "onnxscript/_internal/tape_builder.py"
I_ = z3.IntSort()


class World:
    def __init__(self, ctx, via_schema):
        self.ctx = ctx
        self.m = ctx.int("m")
        self.n = ctx.int("n")
        ctx.assume(self.m >= 1)     # precondition: the operator has at least one formal input (stated in the evidence)
        ctx.assume(self.n >= 0)
        ctx.witness.update(m=self.m, n=self.n)
        self.tv = z3.Function("tv", I_, z3.StringSort())
        self.variadic = z3.Function("variadic", I_, z3.BoolSort())
        self.homog = z3.Function("homog", I_, z3.BoolSort())
        self.typed = z3.Function("typed", I_, z3.BoolSort())
        self.isnone = z3.Function("arg_is_none", I_, z3.BoolSort())   # builder: an omitted optional input
        self.info = z3.Function("info", I_, I_)
        self.wit = z3.Function("wit", I_, I_)
        self.j0 = ctx.int("j0")
        self.k0 = ctx.int("k0")
        ctx.assume(z3.And(self.j0 >= 0, self.j0 < self.n, self.k0 >= 0, self.k0 < self.n))
        ctx.witness.update(j0=self.j0, k0=self.k0)
        self.via_schema = via_schema

    # ---- spec side -----------------------------------------------------------------------
    def last_variadic(self):
        return self.variadic(self.m - 1)

    def hetero(self, i):
        """position i is in the tail of a heterogeneous variadic parameter: no type variable"""
        return z3.And(i >= self.m, z3.Not(self.homog(self.m - 1)))

    def TV(self, i):
        return z3.If(i < self.m, self.tv(i), self.tv(self.m - 1))

    def ident(self, t):
        return z3.Not(z3.Contains(t, z3.StringVal("(")))

    def binder(self, a, t):
        """argument a binds type variable t"""
        typed = z3.And(self.typed(a), z3.Not(self.isnone(a))) if self.via_schema else self.typed(a)   # an omitted input carries no type
        return z3.And(z3.Not(self.hetero(a)), self.TV(a) == t, self.ident(t), typed)

    # ---- objects the code sees -------------------------------------------------------------
    def formal(self, k):
        import onnx
        f = SObj(object, "formal")
        if self.via_schema:
            opt = onnx.defs.OpSchema.FormalParameterOption
            f.fields.update(type_str=SStr(self.tv(k)), option=(opt.Variadic if self.ctx.branch(self.variadic(k)) else opt.Single),
                            is_homogeneous=wrap(self.homog(k)))
        else:
            tc = SObj(object, "tc")
            tc.fields["name"] = SStr(self.tv(k))
            f.fields.update(type_constraint=tc, variadic=wrap(self.variadic(k)), homogeneous=wrap(self.homog(k)))
        return f

    def arg(self, i):
        import onnx_ir as ir
        if self.via_schema:
            # builder: None (omitted) / an ir.Value (typed) / a Python literal
            if self.ctx.branch(self.isnone(i)):
                return None
            x = SObj(ir.Value if self.ctx.branch(self.typed(i)) else object, "arg")
        else:
            x = SObj(object, "arg")
        x.idx = i
        return x


def _entry_desc(W, S, lst, j):
    """(index of the argument, has no type variable, type variable) of entry j of the list the loop builds (no forking)"""
    desc = (S["xidx"](j), S["tvnone"](j), S["tvs"](j))
    for old_len, item in getattr(lst, "appended", []):
        x, t = item
        # a None entry stands for "argument old_len" exactly when that argument is an omitted (None) input
        xi = x.idx if x is not None else z3.If(W.isnone(old_len), old_len, z3.IntVal(-1))
        dx = (xi, z3.BoolVal(t is None), term(t) if t is not None else z3.StringVal(""))
        desc = tuple(z3.If(j == old_len, a, b) for a, b in zip(dx, desc))
    return desc


def _loop_spec(W, I, fn_name, first_wins):
    ctx = W.ctx
    T0 = W.TV(W.j0)
    S = {}

    def mk_list(interp):
        L = ctx.int("len_args_typevars")
        ctx.assume(L >= 0)
        S["xidx"] = z3.Function(ctx.fresh("xidx"), I_, I_)
        S["tvnone"] = z3.Function(ctx.fresh("tvnone"), I_, z3.BoolSort())
        S["tvs"] = z3.Function(ctx.fresh("tvs"), I_, z3.StringSort())
        S["noneidx"] = z3.IntVal(-1)

        def get(j):
            x = W.arg_at(S["xidx"](j))
            return (x, None if ctx.branch(S["tvnone"](j)) else SStr(S["tvs"](j)))
        s = SSeq(L, get, name="args_typevars")
        s.mutable = True
        return s

    def mk_map(interp):
        has = z3.Const(ctx.fresh("has"), z3.ArraySort(z3.StringSort(), z3.BoolSort()))
        val = z3.Const(ctx.fresh("val"), z3.ArraySort(z3.StringSort(), I_))
        return SMap(has, val, mk=W.mk_info, un=W.un_info, name="type_bindings")

    def inv(interp, env, k, pre, it):
        lst = env.lookup("args_typevars")
        mp = env.lookup("type_bindings")
        out = []
        if not isinstance(lst, SSeq):       # before the loop: [] and {}
            return [("one_entry_per_completed_iteration", k == len(lst)), ("nothing_bound_before_the_loop", z3.BoolVal(len(mp) == 0))]
        xi, tn, ts = _entry_desc(W, S, lst, W.j0)
        has0 = z3.Select(mp.has, T0)
        val0 = z3.Select(mp.val, T0)
        def P(w):
            return z3.And(w >= 0, w < k, W.binder(w, T0), val0 == W.info(w))
        # EXISTS w < k: a typed sibling sharing T0 whose type is the bound one.  Assumed: at the Skolem witness wit(k).  Proved (after one
        # more iteration, k = k_old + 1): the witness is the old one or the argument just visited.
        exists_w = P(W.wit(k)) if interp.inv_phase == "assume" else z3.Or(P(W.wit(k - 1)), P(z3.simplify(k - 1)))
        out.append(("one_entry_per_completed_iteration", lst.len == k))
        out.append(("more_arguments_than_formals_only_behind_a_variadic_formal", z3.Implies(k > W.m, W.last_variadic())))
        out.append(("entry_j0_is_argument_j0_with_its_type_variable",
                    z3.Implies(k > W.j0, z3.And(xi == W.j0, tn == W.hetero(W.j0), z3.Implies(z3.Not(tn), ts == T0)))))
        out.append(("type_variable_of_j0_is_bound_once_a_typed_sibling_was_seen", z3.Implies(z3.And(k > W.k0, W.binder(W.k0, T0)), has0)))
        out.append(("a_bound_type_is_the_type_of_a_typed_sibling_sharing_the_variable",
                    z3.Implies(has0, exists_w)))
        return out

    spec = LoopSpec({"args_typevars": mk_list, "type_bindings": mk_map}, inv)
    I.loops[(fn_name, 0)] = spec
    return S, T0


def s_cast_inputs_anylen(ctx, builder=False):
    from onnxscript._internal import autocast, tape_builder
    import onnx_ir as ir
    I = Interp(ctx)
    W = World(ctx, via_schema=builder)
    m, n = W.m, W.n
    cache = {}

    def arg_at(i):
        i = z3.simplify(i)
        key = i.get_id()
        if key not in cache:
            cache[key] = W.arg(i)
        return cache[key]
    W.arg_at = arg_at
    W.mk_info = lambda t: SInt(t)
    W.un_info = lambda v: v.t if isinstance(v, SInt) else (v.idx_info if isinstance(v, SObj) else term(v))
    args = SSeq(n, arg_at, name="args")
    formals = SSeq(m, lambda k: W.formal(z3.simplify(k)), name="formals")
    sig = SObj(object, "signature")
    sig.fields["inputs"] = formals
    fn_name = "BuilderBase._cast_inputs" if builder else "cast_inputs"
    S, T0 = _loop_spec(W, I, fn_name, first_wins=builder)
    casts = []
    if builder:
        self = SObj(tape_builder.BuilderBase, "builder")

        def m_input_to_ir_value(interp, slf, value, like_type=None):
            return ("ir", value, like_type)
        I.models[tape_builder.BuilderBase._input_to_ir_value] = m_input_to_ir_value
        # a typed argument (ir.Value) IS its own type information
        W.un_info = lambda v: W.info(v.idx)
        call = lambda: I.call(tape_builder.BuilderBase._cast_inputs, [self, sig, args])
    else:
        def get_type_info(x):
            raise AssertionError

        def cast(x, b):
            raise AssertionError
        I.models[get_type_info] = lambda interp, x: (SInt(W.info(x.idx)) if ctx.branch(W.typed(x.idx)) else None)
        I.models[cast] = lambda interp, x, b: ("cast", x, b)
        call = lambda: I.call(autocast.cast_inputs, [get_type_info, cast, sig, args])
    tag = "builder._cast_inputs" if builder else "cast_inputs"
    too_many = z3.And(n > m, z3.Not(W.last_variadic()))
    try:
        r = call()
    except PyRaise as e:
        ctx.check(f"C12.{tag}.any_length.raises_only_for_too_many_arguments", z3.And(too_many, z3.BoolVal(isinstance(e.exc, ValueError))), CL)
        return
    ctx.cover(f"{tag}.any_length.returned")
    ctx.check(f"C12.{tag}.any_length.too_many_arguments_refused", z3.Not(too_many), CL)
    rl = r.len if isinstance(r, SSeq) else z3.IntVal(len(r))
    ctx.check(f"C12.{tag}.any_length.one_result_per_argument", rl == n, CL)
    res = r.at(W.j0) if isinstance(r, SSeq) else None
    if builder and res is None:
        ctx.check(f"C12.{tag}.any_length.none_passes_through_only_for_an_omitted_argument", W.isnone(W.j0), CL)
        return
    ok = isinstance(res, tuple) and len(res) == 3 and isinstance(res[1], SObj)
    ctx.check(f"C12.{tag}.any_length.result_is_the_cast_of_an_argument", ok, CL)
    if not ok:
        return
    _kind, x, b = res
    ctx.check(f"C12.{tag}.any_length.argument_order_preserved", x.idx == W.j0, CL)
    if b is None:
        ctx.cover(f"{tag}.any_length.unbound")
        ctx.check(f"C12.{tag}.any_length.no_binding_only_if_no_typed_sibling",
                  z3.Or(W.hetero(W.j0), z3.Not(W.binder(W.k0, T0))), CL)
    else:
        ctx.cover(f"{tag}.any_length.bound")
        bt = W.un_info(b) if not isinstance(b, SInt) else b.t
        w = W.wit(n)
        ctx.check(f"C12.{tag}.any_length.heterogeneous_variadic_has_no_binding", z3.Not(W.hetero(W.j0)), CL)
        ctx.check(f"C12.{tag}.any_length.binding_is_type_of_a_sibling_with_same_typevar",
                  z3.And(w >= 0, w < n, W.binder(w, T0), bt == W.info(w)), CL)


def _mk(fn, *a):
    def run(ctx):
        return fn(ctx, *a)
    return run


_TR = ["the callbacks get_type_info / cast (autocast) and BuilderBase._input_to_ir_value (builder) are abstract: their own contracts are the "
       "C12.converter.static_cast_inputs / C12.eager.cast_pyvalue / C12.builder.input_to_ir_value scenarios",
       "schema convention: a type string without '(' is a type variable"]
_AS = ["precondition m >= 1 (the operator has at least one formal input): with m = 0 and n > 0 the code indexes expected_inputs[-1]",
       "loop invariant stated for one arbitrary argument position j0 and one arbitrary binder k0 (Skolem constants); the existential clause "
       "is assumed at a Skolem witness and proved from two candidates; termination not proved"]
SCENARIOS = [
    Scenario("C12.autocast.cast_inputs[any length]", _mk(s_cast_inputs_anylen, False), [(AUTOCAST, "cast_inputs")],
             trusted=_TR, assumptions=_AS, max_paths=20000, budget_s=900),
    Scenario("C12.builder._cast_inputs[any length]", _mk(s_cast_inputs_anylen, True),
             [(TAPE, "BuilderBase._cast_inputs"), (TAPE, "BuilderBase._cast_inputs.adapt")],
             trusted=_TR, assumptions=_AS, max_paths=20000, budget_s=900),
]
