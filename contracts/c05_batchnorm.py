"""C05 — BatchNormalization fused into the preceding Conv / Gemm (rules/common/_fuse_batchnorm.py).

The REAL _FuseBatchNormBase.check / rewrite / _scale_weights / get_filters_axis and _reshape_for_broadcast are
executed on per-channel symbolic constants.  Element model: every constant tensor is represented by its entry for
ONE arbitrary output channel c (a real), together with its rank and the axis that indexes the output channel;
numpy arithmetic on them is element arithmetic plus the broadcasting alignment rule (trailing axes align), so a
scale applied along a wrong axis is detected as a misalignment.

Operator theory T3 (ONNX documentation; inference mode):
  BatchNormalization(Y, gamma, beta, mean, var; epsilon)[.., c, ..] = gamma[c]*(Y[c] - mean[c])/sqrt(var[c] + epsilon) + beta[c]
  Conv(x, W, B)[.., c, ..]  = <x, W[c]> + B[c]           (linear in W[c]:  Conv(x, s (.)_0 W) = s[c] * Conv(x, W))
  Gemm(x, W, C; alpha, beta, transB)[., c] = alpha * <x, W_col(c)> + beta * C[c]   (column c of W is along axis 1, or axis 0 if transB)
so for a generic channel the inbound node computes   y = a * w * L + b * B   with L an arbitrary real (the inner
product with unit weight), a = alpha (1 for Conv), b = beta (1 for Conv).
Obligation: check() succeeded ==> [[BN(inbound(x))]] = [[replacement]] for every L and every value of the constants
with var + epsilon > 0.   sqrt is axiomatised on the terms that occur: s = sqrt(v) ==> s >= 0 and s*s = v.
ConvTranspose (grouped reshape of the weights) is outside the element model: not covered (stated in evidence).
"""
from __future__ import annotations

import z3

from pyvc.harness import Scenario
from pyvc.interp import Interp, PyRaise
from pyvc.values import SObj, SReal, SInt, Opaque, term, wrap
from .irmodel import World, Call
from .c05_rules import OpRec, with_producer, R

CL = "C05: 'whenever the rule applies to a model, the rewritten model yields the same outputs as before for all inputs (same element type, same shape, equal values)'"
REL = "onnxscript/rewriter/rules/common/_fuse_batchnorm.py"


class EArr:
    """the entry for output channel c of a constant tensor: real term t, tensor rank, channel axis"""
    _pyvc_claims = ()

    def __init__(self, t, rank, caxis, log):
        self.t = t
        self.ndim = rank
        self.caxis = caxis
        self.log = log

    def _other(self, o):
        if isinstance(o, EArr):
            return o
        if isinstance(o, (SReal, SInt)):
            return EArr(z3.ToReal(o.t) if isinstance(o, SInt) else o.t, 0, None, self.log)
        if isinstance(o, (int, float)):
            return EArr(R(o), 0, None, self.log)
        return None

    def _bin(self, o, f):
        o = self._other(o)
        if o is None:
            return NotImplemented
        a, b = self, o
        # numpy broadcasting: trailing axes align; both operands must put channel c on the same output axis
        rank = max(a.ndim, b.ndim)
        pa = None if a.caxis is None else a.caxis + (rank - a.ndim)
        pb = None if b.caxis is None else b.caxis + (rank - b.ndim)
        if pa is not None and pb is not None and pa != pb:
            self.log.append(f"channel axes misaligned: operand ranks {a.ndim}/{b.ndim}, channel axes {a.caxis}/{b.caxis}")
        return EArr(f(a.t, b.t), rank, pa if pa is not None else pb, self.log)

    def __mul__(self, o):
        return self._bin(o, lambda x, y: x * y)

    __rmul__ = __mul__

    def __add__(self, o):
        return self._bin(o, lambda x, y: x + y)

    __radd__ = __add__

    def __sub__(self, o):
        return self._bin(o, lambda x, y: x - y)

    def __rsub__(self, o):
        o = self._other(o)
        return o._bin(self, lambda x, y: x - y)

    def __truediv__(self, o):
        return self._bin(o, lambda x, y: x / y)

    def __rtruediv__(self, o):
        o = self._other(o)
        return o._bin(self, lambda x, y: x / y)


for _n in ("__mul__", "__rmul__", "__add__", "__radd__", "__sub__", "__rsub__", "__truediv__", "__rtruediv__", "_bin", "_other"):
    getattr(EArr, _n)._pyvc_native = True


def s_fuse_batchnorm(ctx, which):
    import numpy as np
    import onnx_ir as ir
    from onnxscript.rewriter.rules.common import _fuse_batchnorm as mod
    I = Interp(ctx)
    W = World(I)
    log = []
    cls = getattr(mod, which)
    rule = SObj(cls, "rule")
    real = lambda n: ctx.const(n, z3.RealSort())
    sq = z3.Function("Sqrt", z3.RealSort(), z3.RealSort())

    def m_sqrt(interp, a):
        if not isinstance(a, EArr):
            raise AssertionError("np.sqrt of a non-array")
        s = sq(a.t)
        interp.ctx.assume(z3.Implies(a.t >= 0, z3.And(s >= 0, s * s == a.t)))
        return EArr(s, a.ndim, a.caxis, log)

    def m_reshape(interp, a, shape):
        shape = list(interp.iterate(shape))
        if not isinstance(a, EArr) or a.ndim != 1 or shape.count(-1) != 1 or any(d not in (1, -1) for d in shape):
            raise AssertionError("np.reshape outside the broadcast helper")
        return EArr(a.t, len(shape), shape.index(-1), log)
    I.models[np.sqrt] = m_sqrt
    I.models[np.reshape] = m_reshape
    I.models[np.zeros_like] = lambda interp, a: EArr(R(0), a.ndim, a.caxis, log)

    def m_tensor(interp, v, *a, **k):
        t = SObj(ir.Tensor, "newtensor")
        t.fields.update(pyvalue=v)
        return t
    I.models[ir.tensor] = m_tensor
    I.models[ir.Attr.as_float] = lambda interp, a: a.fields["value"] if isinstance(a, SObj) else a.as_float()
    I.models[ir.Attr.as_int] = lambda interp, a: a.fields["value"] if isinstance(a, SObj) else a.as_int()

    def const(name, rank, caxis, graph_input=False, initializer=True, known=True, n_uses=1):
        arr = EArr(real(name), rank, caxis, log)
        ctx.witness[name] = arr.t
        t = SObj(ir.Tensor, "t_" + name)

        def numpy_():
            raise AssertionError
        I.models[numpy_] = lambda i2: arr
        t.fields["numpy"] = numpy_
        v = W.value(name, dims=None, rt=[], dtype=ir.DataType.FLOAT, const=(t if known else None), graph_input=graph_input,
                    initializer=initializer)
        v.arr = arr
        return v

    x = W.value("x", dims=None, rt=[], dtype=ir.DataType.FLOAT)
    attrs = {}
    alpha, betag = R(1), R(1)
    if which == "FuseBatchNormIntoGemm":
        wrank = 2
        tb = [None, 0, 1][ctx.choose(3, "transB")]
        if tb is not None:
            attrs["transB"] = tb
        true_caxis = 0 if tb else 1           # Gemm: output column c is column c of B (row c if transB)
        if ctx.choose(2, "alpha attribute present") == 1:
            alpha = real("gemm_alpha")
            ctx.witness["gemm_alpha"] = alpha
            attrs["alpha"] = SReal(alpha)
        if ctx.choose(2, "beta attribute present") == 1:
            betag = real("gemm_beta")
            ctx.witness["gemm_beta"] = betag
            attrs["beta"] = SReal(betag)
    else:
        wrank = [3, 4, 5][ctx.choose(3, "conv weight rank")]
        true_caxis = 0                        # Conv: W[c] is the filter of output channel c
        if ctx.choose(2, "conv has an epsilon-named attribute") == 1:
            attrs["epsilon"] = SReal(real("foreign_epsilon"))   # not a Conv attribute; the value must not be read
    w = const("W", wrank, true_caxis)
    has_bias = ctx.choose(2, "inbound node has a bias input") == 1
    bias = const("B", 1, 0) if has_bias else None
    inbound = W.node(which.replace("FuseBatchNormInto", ""), [x, w] + ([bias] if has_bias else []), attrs=attrs)
    gamma, beta, mean, var = [const(n, 1, 0) for n in ("gamma", "beta", "mean", "var")]
    bn_attrs = {}
    if ctx.choose(2, "epsilon attribute present") == 1:
        eps = real("epsilon")
        ctx.witness["epsilon"] = eps
        bn_attrs["epsilon"] = SReal(eps)
    else:
        eps = z3.RealVal("1e-5") if False else z3.Q(1, 100000)
    y = inbound.fields["outputs"][0]
    bn = W.node("BatchNormalization", [y, gamma, beta, mean, var], attrs=bn_attrs)
    z = bn.fields["outputs"][0]
    with_producer(I, y, inbound)
    with_producer(I, z, bn)
    # users of the inbound initializers: the matched node, and possibly a node outside the match (the real check must refuse)
    shared = ctx.choose(2, "an inbound initializer is also used by another node") == 1
    other = W.node("Identity", [w])
    for v_ in [w] + ([bias] if has_bias else []):
        def uses():
            raise AssertionError
        I.models[uses] = (lambda lst: lambda interp: list(lst))([(inbound, 1)] + ([(other, 0)] if shared and v_ is w else []))
        v_.fields["uses"] = uses
    kw = {"inbound_out": y, "batchnorm_out": z}
    chk = I.call(I.getattr(rule, "check"), [None, x], dict(kw))
    if not I.truth(chk):
        ctx.cover(f"{which}.check_failed")
        return
    ctx.check(f"C05.rules.{which}.refuses_when_the_weight_initializer_is_shared", not shared,
              "C04/C05: the fused weight is registered under the old initializer's name; a second user of the old weight would read the scaled one")
    op = OpRec()
    try:
        r = I.call(I.getattr(rule, "rewrite"), [op, x], dict(kw))
    except PyRaise as e:
        ctx.check(f"C04.rules.{which}.rewrite_never_raises_after_a_successful_check", False, "C04: 'optimize, rewrite ... return without raising'")
        return
    ok = isinstance(r, Call) and r.op == inbound.fields["op_type"] and len(r.args) == 3 and r.args[0] is x and \
        all(isinstance(c, Call) and c.op == "initializer" for c in r.args[1:])
    ctx.check(f"C05.rules.{which}.replacement_is_one_inbound_node_on_x_with_new_weight_and_bias", ok, CL)
    if not ok:
        return
    ctx.check(f"C05.rules.{which}.replacement_keeps_exactly_the_inbound_attributes", set(r.kwargs) == set(attrs) and
              all(r.kwargs[k] is inbound.fields["attributes"][k] for k in attrs), CL)
    fw = r.args[1].args[0].fields["pyvalue"]
    fb = r.args[2].args[0].fields["pyvalue"]
    okv = isinstance(fw, EArr) and isinstance(fb, EArr)
    ctx.check(f"C05.rules.{which}.fused_constants_are_arrays", okv, CL)
    if not okv:
        return
    ctx.check(f"C05.rules.{which}.scale_applied_along_the_output_channel_axis", not log and fw.ndim == wrank and fw.caxis == true_caxis
              and fb.ndim == 1 and fb.caxis == 0, CL + (" — " + "; ".join(log) if log else ""))
    ctx.cover(f"{which}.rewritten")
    L = real("L")
    ctx.witness["L"] = L
    ctx.assume(var.arr.t + eps > 0)
    s = sq(var.arr.t + eps)
    ctx.assume(z3.And(s > 0, s * s == var.arr.t + eps))
    Bt = bias.arr.t if has_bias else R(0)
    y_orig = alpha * w.arr.t * L + (betag * Bt if has_bias else R(0))
    original = gamma.arr.t * (y_orig - mean.arr.t) / s + beta.arr.t
    fused = alpha * fw.t * L + betag * fb.t
    ctx.check(f"C05.rules.{which}.same_values_for_every_input_and_every_constants", original == fused, CL)


def _mk(which):
    def run(ctx):
        return s_fuse_batchnorm(ctx, which)
    return run


T3 = ["ONNX operator documentation: BatchNormalization (inference), Conv / Gemm are linear in the weight column of an output channel",
      "numpy broadcasting aligns trailing axes; np.sqrt / np.reshape / np.zeros_like element semantics"]
A3 = ["floats treated as mathematical reals", "var + epsilon > 0", "BatchNormalization in inference mode (training_mode = 0)"]
SCENARIOS = [
    Scenario(f"C05.rules.fuse_batchnorm.{w}", _mk(w),
             [(REL, "_FuseBatchNormBase.rewrite"), (REL, "_FuseBatchNormBase.check"), (REL, "_FuseBatchNormBase._scale_weights"),
              (REL, f"{w}.get_filters_axis"), (REL, "_reshape_for_broadcast")],
             trusted=T3, assumptions=A3)
    for w in ("FuseBatchNormIntoConv", "FuseBatchNormIntoGemm")
]
