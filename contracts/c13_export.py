"""C13 — ONNX -> Python (proto2python) -> ONNX: the naming / typing layer of backend/onnx_export.py.

  _cleanup_variable_name     result is a Python identifier that is not a keyword (string theory; ASCII classes exact,
                             non-ASCII letters through uninterpreted predicates); injectivity on distinct names
                             ("names that collide after clean-up") is stated and FAILS — known finding;
  _make_short_name_mapper    injective on cleaned names, stable per name (three symbolic names, any equalities);
  operator table `ops`       every entry is an ONNX operator and the Python operator translates back to the same
                             operator through the converter's primop_map (finite, evaluation);
  onnx_types                 onnx_type_to_onnxscript_repr -> eval -> to_type_proto is the identity on tensor types
                             (all element types x {rank 0, ints, named, unknown dims, unknown rank}) (finite, evaluation).
Residual (not claimed): the emitted program text as a whole (exec + compare models) is outside this family.
"""
from __future__ import annotations

import ast
import keyword

import z3

from pyvc.harness import Scenario
from pyvc.interp import Interp, PyRaise, _one_char
from pyvc.values import SObj, SStr, StrSort, term

REL = "onnxscript/backend/onnx_export.py"
CL_ID = "C13: 'it never emits text that is not valid Python' — value names become Python identifiers"
CL_INJ = "C13: 'names needing clean-up: dots, leading digits, keywords, names that collide after clean-up' — distinct values must stay distinct variables"


def _exp():
    from onnxscript.backend import onnx_export
    return onnx_export


def _exporter_standin(name="exporter"):
    """A symbolic-heap stand-in for _Exporter: the scenario sets the fields it controls; every OTHER field the real __init__ creates is read
    lazily from a real instance (so a field added to the class later exists and has its initial value — a harmless change must not alarm)."""
    exp = _exp()
    o = SObj(exp._Exporter, name)
    real = []

    def lazy(interp_, obj, attr):
        from pyvc.interp import _MISSING
        if attr.startswith("__"):
            return _MISSING
        if not real:
            real.append(exp._Exporter(rename=False, use_operators=False, inline_const=False, skip_initializers=False))
        d = real[0].__dict__
        return d[attr] if attr in d else _MISSING
    o.lazy = lazy
    return o


def _is_identifier(t):
    i = z3.Int("ii")
    first = z3.SubString(t, 0, 1)
    c = z3.SubString(t, i, 1)
    us = z3.StringVal("_")
    return z3.And(z3.Length(t) > 0, z3.Or(_one_char(first, "alpha"), first == us),
                  z3.ForAll([i], z3.Implies(z3.And(i >= 0, i < z3.Length(t)), z3.Or(_one_char(c, "alnum"), c == us))))


def _kwlist():
    return sorted(set(keyword.kwlist))


def _run_cleanup(I, n):
    clo = I.closure_of(_exp()._cleanup_variable_name)
    return I.run_closure(clo, [SStr(n)], {})


def s_cleanup_identifier(ctx):
    I = Interp(ctx)
    n = z3.String("name")
    ctx.witness["name"] = n
    ctx.assume(z3.Length(n) > 0)
    r = _run_cleanup(I, n)
    rt = term(r)
    ctx.check("C13.export.cleanup_variable_name.result_is_a_python_identifier", _is_identifier(rt), CL_ID)
    for k in _kwlist():
        ctx.check("C13.export.cleanup_variable_name.result_is_not_a_keyword", rt != z3.StringVal(k), CL_ID)


def s_cleanup_injective(ctx):
    I = Interp(ctx)
    a, b = z3.String("name_a"), z3.String("name_b")
    ctx.witness["name_a"] = a
    ctx.witness["name_b"] = b
    ctx.assume(z3.And(z3.Length(a) > 0, z3.Length(b) > 0, a != b, z3.Length(a) <= 4, z3.Length(b) <= 4))
    ra = term(_run_cleanup(I, a))
    rb = term(_run_cleanup(I, b))
    ctx.check("C13.export.cleanup_variable_name.distinct_names_stay_distinct", ra != rb, CL_INJ)


def s_short_name_mapper(ctx):
    I = Interp(ctx)
    I.models[_exp()._cleanup_variable_name] = lambda interp, name: name  # cleaned names are the keys
    renamer = I.call(_exp()._make_short_name_mapper, [])
    names = [z3.String(f"n{i}") for i in range(3)]
    outs = [I.call(renamer, [SStr(n)]) for n in names]
    again = [I.call(renamer, [SStr(n)]) for n in names]
    for i in range(3):
        ctx.check("C13.export.short_name_mapper.stable_per_name", term(outs[i]) == term(again[i]) if not isinstance(outs[i], str)
                  else outs[i] == again[i], CL_INJ)
        for j in range(i + 1, 3):
            same_in = names[i] == names[j]
            oi, oj = outs[i], outs[j]
            same_out = (oi == oj) if isinstance(oi, str) and isinstance(oj, str) else (term(oi) == term(oj))
            ctx.check("C13.export.short_name_mapper.same_short_name_iff_same_name",
                      same_in == (z3.BoolVal(same_out) if isinstance(same_out, bool) else same_out), CL_INJ)


def s_operator_table(_ctx):
    """`ops` maps ONNX op types to Python operator text; translating that operator back (converter.primop_map) must
    give the same ONNX operator."""
    import onnx
    from contracts.c17_opsets import Agg
    from onnxscript._internal import converter
    exp = _exp()
    agg = Agg()
    # the table is a dict literal local to _Exporter._translate_node: read it from the real source
    from pyvc import extract
    table = {}
    try:
        node_ = extract.find(REL, "_Exporter._translate_node")
        for st in ast.walk(node_):
            if isinstance(st, ast.Assign) and len(st.targets) == 1 and isinstance(st.targets[0], ast.Name) and st.targets[0].id == "ops" \
                    and isinstance(st.value, ast.Dict):
                table = ast.literal_eval(st.value)
    except extract.Missing:
        table = {}
    cl = "C13: 'under every export option (... use_operators ...)' — an operator printed for an op must denote that op when re-translated"
    back = {}
    for cls_, name in converter.primop_map.items():
        back[cls_] = name
    pyops = {"+": ast.Add, "-": ast.Sub, "*": ast.Mult, "/": ast.Div, "@": ast.MatMult, "%": ast.Mod, "**": ast.Pow,
             "<": ast.Lt, "<=": ast.LtE, ">": ast.Gt, ">=": ast.GtE, "==": ast.Eq, "!=": ast.NotEq, "&": ast.BitAnd, "|": ast.BitOr,
             "and": ast.And, "or": ast.Or, "not": ast.Not, "-u": ast.USub}
    n = 0
    for op_type, text in (table.items() if isinstance(table, dict) else []):
        n += 1
        t = text.strip() if isinstance(text, str) else text
        try:
            onnx.defs.get_schema(op_type)
            known = True
        except Exception:  # noqa: BLE001
            known = False
        if not known:
            continue  # an entry for a name that is not an ONNX operator can never be used: harmless
        sch = onnx.defs.get_schema(op_type)
        agg.ob("C13.export.operator_table.operator_form_only_for_ops_without_attributes", len(sch.attributes) == 0,
               f"{op_type!r} is printed as {text!r} but its schema has attributes {sorted(sch.attributes)}: the infix form cannot carry them", cl, case=op_type)
        node = pyops.get(t)
        agg.ob("C13.export.operator_table.operator_text_is_a_python_operator", node is not None, f"{op_type!r} -> {text!r}", cl, case=op_type)
        if node is None:
            continue
        agg.ob("C13.export.operator_table.python_operator_translates_back_to_the_same_op", back.get(node) == op_type,
               f"{op_type!r} is printed as {text!r}, which the converter translates to {back.get(node)!r}", cl, case=op_type)
    if n == 0:
        agg.ob("C13.export.operator_table.found", False, "no operator table found in onnx_export", cl)
    return {"obligations": agg.obs, "paths": n, "covered": [f"operator_table_entries={n}"], "notes": [], "functions": []}


def s_type_roundtrip(_ctx):
    import onnx
    import onnxscript
    from onnxscript import onnx_types
    from contracts.c17_opsets import Agg
    agg = Agg()
    cl = "C13: 'to_model_proto() has the same graph inputs and outputs' — tensor types survive repr -> eval -> to_type_proto"
    elem = [v for k, v in vars(onnx.TensorProto).items() if k.isupper() and isinstance(v, int) and k not in ("UNDEFINED",)]
    shapes = [None, [], [3], ["N"], [None], [2, "N", None], ["N", "N"], [0, 1]]
    n = 0
    env = {k: getattr(onnx_types, k) for k in dir(onnx_types)}
    env.update({k: getattr(onnxscript, k) for k in dir(onnxscript) if k.isupper()})
    for et in elem:
        for shp in shapes:
            tp = onnx.helper.make_tensor_type_proto(et, shp)
            try:
                text = onnx_types.onnx_type_to_onnxscript_repr(tp)
            except Exception as e:  # noqa: BLE001
                continue  # unsupported element type: refusal is allowed
            n += 1
            try:
                obj = eval(text, dict(env))
                back = obj.to_type_proto()
                ok = back == tp
                detail = f"{onnx.TensorProto.DataType.Name(et)}{shp}: repr {text!r} -> {str(back).strip()!r}"
            except Exception as e:  # noqa: BLE001
                ok, detail = False, f"{onnx.TensorProto.DataType.Name(et)}{shp}: repr {text!r} does not evaluate back: {e!r}"
            agg.ob("C13.types.repr_eval_to_type_proto_is_identity", ok, detail, cl, case=f"{onnx.TensorProto.DataType.Name(et)}{shp}")
    return {"obligations": agg.obs, "paths": n, "covered": [f"tensor_types={n}"], "notes": [], "functions": []}


SCENARIOS = [
    Scenario("C13.export.cleanup_variable_name.identifier", s_cleanup_identifier,
             [(REL, "_cleanup_variable_name"), (REL, "_cleanup_variable_name.rename_char")],
             trusted=["str.isalpha/isalnum interpreted exactly on ASCII, through uninterpreted predicates (isalpha => isalnum) beyond; "
                      "a Python identifier = [A-Za-z_][A-Za-z0-9_]* on ASCII (non-ASCII identifier rules not modelled)"]),
    Scenario("C13.export.cleanup_variable_name.injective", s_cleanup_injective, [(REL, "_cleanup_variable_name")],
             assumptions=["counterexample search restricted to names of length <= 4"]),
    Scenario("C13.export.short_name_mapper", s_short_name_mapper,
             [(REL, "_make_short_name_mapper"), (REL, "_make_short_name_mapper.renamer")], kind="bounded",
             bound="three symbolic names with arbitrary equalities"),
    Scenario("C13.export.operator_table", s_operator_table, kind="evaluation"),
    Scenario("C13.types.roundtrip", s_type_roundtrip, [("onnxscript/onnx_types.py", "onnx_type_to_onnxscript_repr")], kind="evaluation"),
]


def s_const_repr(_ctx):
    """_get_const_repr: the emitted literal text must be a Python expression that evaluates (without any names in
    scope) to the constant's value — nan, inf, -inf, negative, 0-d and 1-d included."""
    import math
    import numpy as np
    import onnx
    from onnx import helper, numpy_helper, TensorProto
    from contracts.c17_opsets import Agg
    agg = Agg()
    cl = "C13: 'constants incl. nan/inf/negative/0-d/1-d' — 'it never emits text that is not valid Python or that denotes a different computation'"
    fvals = [0.0, -0.0, 1.5, -2.25, 1e-30, 3.4e38, float("nan"), float("inf"), float("-inf")]
    ivals = [0, 1, -3, 2 ** 62, -(2 ** 63)]
    cases = []
    for v in fvals:
        cases.append((np.array(v, dtype=np.float32), f"FLOAT scalar {v!r}"))
        cases.append((np.array([v, 1.0], dtype=np.float32), f"FLOAT[2] [{v!r}, 1.0]"))
    for v in ivals:
        cases.append((np.array(v, dtype=np.int64), f"INT64 scalar {v}"))
        cases.append((np.array([v], dtype=np.int64), f"INT64[1] [{v}]"))
    cases.append((np.array([], dtype=np.float32), "FLOAT[0]"))
    cases.append((np.array([], dtype=np.int64), "INT64[0]"))
    # other element types: a bare Python literal is read back by the converter as FLOAT / INT64 / BOOL (C12), so a
    # constant of another type may only be inlined if the text carries its type
    for dt, vals in ((np.float64, [1e-60, 1e300, 1 / 3, 2.5]), (np.float16, [0.5]), (np.int32, [7, -1]), (np.uint8, [200]),
                     (np.bool_, [True]), (np.int8, [-5]), (np.uint64, [2 ** 63])):
        for v in vals:
            cases.append((np.array(v, dtype=dt), f"{np.dtype(dt).name} scalar {v!r}"))
            cases.append((np.array([v], dtype=dt), f"{np.dtype(dt).name}[1] [{v!r}]"))
    n = 0
    for arr, label in cases:
        node = helper.make_node("Constant", [], ["c"], value=numpy_helper.from_array(arr, "c"))
        text = _exp()._get_const_repr(node)
        if text is None:
            continue
        n += 1
        try:
            val = eval(text, {"__builtins__": {}}, {})
            first = val[0] if isinstance(val, (list, tuple)) and val else val
            natural = np.bool_ if isinstance(first, bool) else (np.int64 if isinstance(first, int) else np.float32)
            if isinstance(val, (list, tuple)) and not val:
                # an empty literal carries no element type: the converter refuses it ("dtype must be specified when value is an empty sequence")
                raise ValueError("an empty list literal has no element type; the converter refuses it")
            got = np.array(val, dtype=natural).reshape(arr.shape)
            same_type = np.dtype(natural) == arr.dtype
            ok = same_type and (got.tobytes() == arr.tobytes() or (np.array_equal(got, arr, equal_nan=True) and not np.any(np.signbit(got) != np.signbit(arr))))
            detail = f"{label}: text {text!r} evaluates to {val!r}, which the converter types as {np.dtype(natural).name}" + ("" if same_type else f" — not {arr.dtype.name}")
        except Exception as e:  # noqa: BLE001
            ok, detail = False, f"{label}: emitted literal {text!r} is not a self-contained Python expression ({type(e).__name__}: {e})"
        agg.ob("C13.export.const_repr.literal_text_evaluates_to_the_constant", ok, detail, cl, case=label)
    return {"obligations": agg.obs, "paths": n, "covered": [f"constants={n}"], "notes": [], "functions": []}


SCENARIOS.append(Scenario("C13.export.const_repr", s_const_repr, [(REL, "_get_const_repr")], kind="evaluation"))


def s_attribute_param_types(ctx):
    """_attribute_param_types: every attribute reference of a function body — at any nesting depth (node attribute,
    inside a graph-valued attribute, inside a list of graphs) — is recorded with the type of the referencing attribute."""
    import onnx
    from pyvc.values import SInt
    I = Interp(ctx)
    exp = _exp()
    AP = onnx.AttributeProto
    name = z3.String("attr_param_name")
    ctx.assume(z3.Length(name) > 0)
    tp = ctx.int("attr_type")
    ctx.assume(z3.And(tp >= 1, tp <= 14, tp != AP.GRAPH, tp != AP.GRAPHS))
    where = ["top-level node", "inside a GRAPH attribute", "inside a GRAPHS attribute", "two levels deep"][ctx.choose(4, "location of the reference")]
    ctx.cover("attr_param_types." + where)

    def ref_attr():
        a = SObj(onnx.AttributeProto, "refattr")
        a.fields.update(ref_attr_name=SStr(name), type=SInt(tp), name="alpha")
        return a

    def node_with(attrs):
        n = SObj(onnx.NodeProto, "node")
        n.fields.update(attribute=list(attrs), op_type="Op")
        return n

    def graph_with(nodes):
        g = SObj(onnx.GraphProto, "graph")
        g.fields.update(node=list(nodes))
        return g

    def graph_attr(g):
        a = SObj(onnx.AttributeProto, "graphattr")
        a.fields.update(ref_attr_name="", type=AP.GRAPH, g=g, graphs=[], name="body")
        return a

    def graphs_attr(gs):
        a = SObj(onnx.AttributeProto, "graphsattr")
        a.fields.update(ref_attr_name="", type=AP.GRAPHS, g=None, graphs=list(gs), name="bodies")
        return a
    plain = SObj(onnx.AttributeProto, "plain")
    plain.fields.update(ref_attr_name="", type=AP.INT, name="axis")
    inner = node_with([plain, ref_attr()])
    if where == "top-level node":
        nodes = [inner]
    elif where == "inside a GRAPH attribute":
        nodes = [node_with([graph_attr(graph_with([inner]))])]
    elif where == "inside a GRAPHS attribute":
        nodes = [node_with([graphs_attr([graph_with([]), graph_with([inner])])])]
    else:
        nodes = [node_with([graph_attr(graph_with([node_with([graphs_attr([graph_with([inner])])])]))])]
    fp = SObj(onnx.FunctionProto, "funproto")
    fp.fields.update(node=nodes)
    I.models[exp._is_attribute_ref] = lambda interp, a: wrap_(z3.Length(term(a.fields["ref_attr_name"])) > 0) if not isinstance(a.fields["ref_attr_name"], str) else bool(a.fields["ref_attr_name"])
    r = I.run_closure(I.closure_of(exp._attribute_param_types), [fp], {})
    ok = isinstance(r, dict) and len(r) == 1
    ctx.check("C13.export.attribute_param_types.reference_found_at_any_depth", ok,
              "C13: 'model-local functions with attribute references' — an attribute parameter used only inside an If/Loop body keeps its type")
    if ok:
        k, v = list(r.items())[0]
        ctx.check("C13.export.attribute_param_types.recorded_with_the_type_of_the_reference", z3.And(term(k) == name, term(v) == tp), "C13")


def wrap_(t):
    from pyvc.values import wrap
    return wrap(t)


SCENARIOS.append(Scenario("C13.export.attribute_param_types", s_attribute_param_types,
                          [(REL, "_attribute_param_types"), (REL, "_attribute_param_types.visit_node"), (REL, "_attribute_param_types.visit_graph")],
                          kind="bounded", bound="one attribute reference at nesting depth 0, 1 (GRAPH), 1 (GRAPHS) or 2; name and type symbolic"))


def s_attr_name_conflict(ctx):
    """Attribute parameters keep their names; a VALUE whose name collides with an attribute parameter is renamed to a
    name that is neither an attribute parameter nor any other name used in the function (real
    _translate_function_signature.attr_sig + _handle_attrname_conflict.new_renamer)."""
    import onnx
    I = Interp(ctx)
    exp = _exp()
    self = _exporter_standin()
    attrs = ["alpha"] + (["alpha_0"] if ctx.choose(2, "a second attribute parameter is named alpha_0") == 1 else []) \
        + (["alpha_1"] if ctx.choose(2, "a third attribute parameter is named alpha_1") == 1 else [])
    other_used = {nm for nm in ("alpha_0", "alpha_1", "alpha_2", "x") if ctx.choose(2, f"the function body uses a value named {nm}") == 1}
    other_used -= set(attrs)
    self.fields.update(_attr_renaming={}, _names_used=set(other_used) | {"alpha"}, _name_remappings=[], constants={})

    def ident(n):
        raise AssertionError
    I.models[ident] = lambda interp, n: n
    self.fields["_rename_variable"] = I.call(I.getattr(self, "_handle_attrname_conflict"), [ident])
    I.models[exp._attribute_param_types] = lambda interp, f: {}
    fp = SObj(onnx.FunctionProto, "funproto")
    fp.fields.update(input=["x"], attribute=list(attrs), attribute_proto=[])
    sig = I.run_closure(I.closure_of(exp._Exporter._translate_function_signature), [self, fp], {})
    ctx.check("C13.export.signature.attribute_parameters_keep_their_names", isinstance(sig, str) and all(f"{a}: " in sig for a in attrs),
              "C13: 'functions with attribute parameters' keep their interface")
    # a value named like the first attribute parameter (SSA name from the proto) is now referenced
    before = set(self.fields["_names_used"])
    r = I.call(self.fields["_rename_variable"], ["alpha"])
    r2 = I.call(self.fields["_rename_variable"], ["alpha"])
    ctx.check("C13.export.rename.value_colliding_with_an_attribute_parameter_gets_a_name_that_is_no_attribute_parameter",
              isinstance(r, str) and r not in attrs, "C13: 'it never emits text ... that denotes a different computation' — rebinding an attribute parameter name to a tensor")
    ctx.check("C13.export.rename.replacement_name_is_not_used_by_another_value", isinstance(r, str) and r not in other_used,
              "C13: two different ONNX values must not share a Python name")
    ctx.check("C13.export.rename.same_value_gets_the_same_replacement_every_time", r == r2, "C13")
    r3 = I.call(self.fields["_rename_variable"], ["x"])
    ctx.check("C13.export.rename.other_names_unchanged", r3 == "x", "C13")


SCENARIOS.append(Scenario("C13.export.attr_name_conflict", s_attr_name_conflict,
                          [(REL, "_Exporter._translate_function_signature"), (REL, "_Exporter._translate_function_signature.attr_sig"),
                           (REL, "_Exporter._handle_attrname_conflict"), (REL, "_Exporter._handle_attrname_conflict.new_renamer")],
                          kind="bounded", bound="attribute parameters among alpha, alpha_0, alpha_1; other used names among alpha_0..alpha_2, x"))


def s_operator_text_structure(_ctx):
    """use_operators rendering (real _Exporter._translate_node): the emitted text `out = a <op> b` must PARSE to the binary
    operation of exactly the two operand expressions, whatever text stands for the operands (a variable, or an inlined
    constant: positive / negative number, list)."""
    import onnx
    from onnx import helper
    from contracts.c17_opsets import Agg
    from pyvc.core import Ctx
    exp = _exp()
    agg = Agg()
    cl = "C13: 'it never emits text that is not valid Python or that denotes a different computation' (use_operators, inline_const)"
    operand_texts = {"variable": None, "positive literal": "2.0", "negative literal": "-2.0", "negative int": "-3", "list literal": "[-1.0, 2.0]"}
    ops = ["Add", "Sub", "Mul", "Div", "Pow", "MatMul", "And", "Or", "Greater", "Equal", "GreaterOrEqual", "LessOrEqual"]
    n = 0
    for op_type in ops:
        for lk, lt in operand_texts.items():
            for rk, rt in operand_texts.items():
                n += 1
                ctx = Ctx([], {"solver_s": 0.0, "queries": 0})
                I = Interp(ctx)
                self = _exporter_standin()
                consts = {}
                if lt is not None:
                    consts["a"] = lt
                if rt is not None:
                    consts["b"] = rt

                def ident(nm):
                    raise AssertionError
                I.models[ident] = lambda interp, nm: nm
                self.fields.update(use_operators=True, inline_const=True, constants=consts, _name_remappings=[], _rename_variable=ident)
                node = helper.make_node(op_type, ["a", "b"], ["out"])
                try:
                    text = I.run_closure(I.closure_of(exp._Exporter._translate_node), [self, node, {"": 18}], {})
                except Exception as e:  # noqa: BLE001
                    agg.ob("C13.export.operator_text.parses_to_the_operation_of_its_two_operands", False, f"{op_type} {lk} {rk}: {type(e).__name__}: {e}", cl,
                           case=f"{op_type}: {lk} / {rk}")
                    continue
                ok, detail = False, f"{op_type} with {lk} and {rk}: emitted {text!r}"
                try:
                    tree = ast.parse(text.strip()).body[0]
                    rhs = tree.value
                    if "=" not in text or not isinstance(tree, ast.Assign):
                        raise SyntaxError("not an assignment")
                    if isinstance(rhs, ast.Compare):
                        left, right = rhs.left, rhs.comparators[0]
                        simple = len(rhs.ops) == 1
                    elif isinstance(rhs, ast.BinOp):
                        left, right, simple = rhs.left, rhs.right, True
                    else:
                        left = right = None
                        simple = False
                    want_l = ast.dump(ast.parse(lt or "a", mode="eval").body)
                    want_r = ast.dump(ast.parse(rt or "b", mode="eval").body)
                    ok = simple and left is not None and ast.dump(left) == want_l and ast.dump(right) == want_r
                    if not ok:
                        detail += f" which parses as {ast.dump(rhs)[:160]}"
                except SyntaxError as e:
                    detail += f" — not valid Python ({e})"
                agg.ob("C13.export.operator_text.parses_to_the_operation_of_its_two_operands", ok, detail, cl, case=f"{op_type}: {lk} / {rk}")
    return {"obligations": agg.obs, "paths": n, "covered": [f"operator_renderings={n}"], "notes": [], "functions": []}


SCENARIOS.append(Scenario("C13.export.operator_text", s_operator_text_structure, [(REL, "_Exporter._translate_node"), (REL, "_Exporter._translate_onnx_var_ref"),
                                                                                  (REL, "_Exporter._translate_onnx_var")], kind="evaluation"))


def s_decorator_default_opset(ctx):
    """_translate_graph / _translate_function: the generated @script(...) decorator must name the imported standard
    opset as default_opset — with use_operators a body may consist of operators only (`y = a + b`), and the converter
    refuses a function that neither uses an opset nor declares a default one."""
    import onnx
    from pyvc.values import SInt
    I = Interp(ctx)
    exp = _exp()
    self = _exporter_standin()
    v = [1, 13, 18, 23][ctx.choose(4, "opset version")]
    has_default = ctx.choose(2, "the standard domain is imported") == 0
    which = ctx.choose(2, "graph (0) or function (1)")
    use_ops = ctx.choose(2, "use_operators") == 0
    self.fields.update(use_operators=use_ops, skip_initializers=False, skipped_initializers={}, _name_remappings=[], _attr_renaming={}, _names_used=set(), constants={})

    def ident(n):
        raise AssertionError
    I.models[ident] = lambda interp, n: n
    self.fields["_rename_variable"] = ident
    I.models[exp._Exporter._translate_graph_body] = lambda interp, slf, g, opsets, indent=0: "    body"
    I.models[exp._Exporter._translate_node] = lambda interp, slf, n, opsets, indent=0: "    node"
    I.models[exp._translate_signature] = lambda interp, i, o, *a: "(x):"
    I.models[exp._Exporter._translate_function_signature] = lambda interp, slf, f: "(x):"
    I.models[exp._names_used_in_function] = lambda interp, f: []

    def imp(domain, version):
        o = SObj(onnx.OperatorSetIdProto, "opsetid")
        o.fields.update(domain=domain, version=version)
        return o
    imports = ([imp("", v)] if has_default else []) + [imp("custom", 1)]
    if which == 0:
        g = SObj(onnx.GraphProto, "graph")
        g.fields.update(name="g", input=[], output=["y"], doc_string="", value_info=[])
        m = SObj(onnx.ModelProto, "model")
        m.fields.update(graph=g, opset_import=imports)
        text = I.run_closure(I.closure_of(exp._Exporter._translate_graph), [self, m, "main"], {})
    else:
        f = SObj(onnx.FunctionProto, "funproto")
        f.fields.update(domain="custom", name="f", input=["x"], output=["y"], node=["n"], doc_string="", opset_import=imports, attribute=[], attribute_proto=[])
        text = I.run_closure(I.closure_of(exp._Exporter._translate_function), [self, f], {})
    deco = text.split("\n")[0] if isinstance(text, str) else ""
    want = f"default_opset=opset{v}"
    if not use_ops:
        ctx.cover("decorator without use_operators: every node is an opset call, no default needed")
        ctx.check("C13.export.decorator.is_a_script_decorator", "@script(" in deco, "C13")
    elif has_default:
        ctx.check("C13.export.decorator.names_the_imported_standard_opset_as_default_opset", "@script(" in deco and want in deco and deco.rstrip().endswith(")"),
                  "C13: 'under every export option (... use_operators ...)' the emitted text 'is a script whose to_model_proto() ...' — a body of operators only needs a default opset")
    else:
        ctx.check("C13.export.decorator.no_default_opset_without_the_standard_domain", "default_opset" not in deco, "C13")


SCENARIOS.append(Scenario("C13.export.decorator", s_decorator_default_opset, [(REL, "_Exporter._translate_graph"), (REL, "_Exporter._translate_function"),
                                                                              (REL, "_Exporter._make_opset_name"), (REL, "_Exporter._rename_domain")]))


def s_graph_signature_names(_ctx):
    """_translate_graph: the parameter names of the generated `def` are the names the generated body uses for the graph
    inputs, under rename=False and rename=True (real _Exporter instance, real _translate_signature / _translate_onnx_var;
    only the body translation is replaced by a recorder of the names it would use)."""
    import onnx
    from onnx import helper, TensorProto
    from contracts.c17_opsets import Agg
    from pyvc.core import Ctx
    exp = _exp()
    agg = Agg()
    cl = "C13: 'returns Python source whose execution defines a script function ... under every export option (rename, ...)'"
    n = 0
    for rename in (False, True):
        for names in (["x"], ["x", "w.0"], ["5", "class"]):
            n += 1
            ctx = Ctx([], {"solver_s": 0.0, "queries": 0})
            I = Interp(ctx)
            ex = exp._Exporter(rename=rename, use_operators=False, inline_const=False, skip_initializers=False)
            g = helper.make_graph([helper.make_node("Identity", [names[0]], ["y"])], "g",
                                  [helper.make_tensor_value_info(nm, TensorProto.FLOAT, [2]) for nm in names],
                                  [helper.make_tensor_value_info("y", TensorProto.FLOAT, [2])])
            m = helper.make_model(g, opset_imports=[helper.make_opsetid("", 18)])
            used = {}

            scope_depth = []

            def m_body(interp, slf, graph, opsets, indent=0):
                scope_depth.append(len(slf._name_remappings))
                for vi_ in graph.input:
                    used[vi_.name] = interp.call(interp.getattr(slf, "_translate_onnx_var"), [vi_.name])
                return "    pass"
            I.models[exp._Exporter._translate_graph_body] = m_body
            try:
                text = I.run_closure(I.closure_of(exp._Exporter._translate_graph), [ex, m, "main"], {})
                defline = [ln for ln in text.splitlines() if ln.strip().startswith("def ")][0]
                tree = ast.parse(defline + "\n    pass\n").body[0]
                params = [a.arg for a in tree.args.args]
                want = [used[nm] for nm in names]
                ok = params == want
                detail = f"rename={rename}, graph inputs {names}: signature parameters {params}, names used for them in the body {want}"
            except Exception as e:  # noqa: BLE001
                ok, detail = False, f"rename={rename}, inputs {names}: {type(e).__name__}: {e}"
            agg.ob("C13.export.graph_signature.parameters_are_the_names_the_body_uses_for_the_inputs", ok, detail, cl, case=f"rename={rename} {names}")
            agg.ob("C13.export.graph.body_is_translated_inside_a_name_remapping_scope", scope_depth == [1] and len(ex._name_remappings) == 0,
                   f"rename={rename}: while the body of a model graph is translated there are {scope_depth} name-remapping scopes (a for-loop in the body "
                   f"writes into the innermost one, as it does for functions); {len(ex._name_remappings)} left afterwards", cl, case=f"rename={rename}")
    return {"obligations": agg.obs, "paths": n, "covered": [f"signature_cases={n}"], "notes": [], "functions": []}


SCENARIOS.append(Scenario("C13.export.graph_signature", s_graph_signature_names, [(REL, "_Exporter._translate_graph"), (REL, "_translate_signature"),
                                                                                  (REL, "_translate_signature.input_sig")], kind="evaluation"))


def s_translate_loop(_ctx):
    """_Exporter._translate_loop (real source) on an abstract Loop node: every value READ by the generated loop header
    (trip count, initial condition, initial state) is printed the way any other use is printed — an inlined constant by
    its literal (inline_const=True removes the Constant node, so its name is never assigned) — and a loop with both a
    trip count and a live condition is printed in a form the converter accepts (`if <name>: break`)."""
    from onnx import helper, TensorProto
    from contracts.c17_opsets import Agg
    from pyvc.core import Ctx
    exp = _exp()
    agg = Agg()
    cl = "C13: 'under every export option (rename, use_operators, inline_const, skip_initializers)' — models 'with If and Loop bodies'"
    n = 0
    for trip_inlined in (False, True):
        for init_inlined in (False, True):
            for cond_live in (False, True):
                n += 1
                ctx = Ctx([], {"solver_s": 0.0, "queries": 0})
                I = Interp(ctx)
                ex = exp._Exporter(rename=False, use_operators=False, inline_const=True, skip_initializers=False)
                ex._name_remappings.append({})
                if trip_inlined:
                    ex.constants["trip"] = "3"
                if init_inlined:
                    ex.constants["init"] = "[1.0, 2.0]"
                body_nodes = [helper.make_node("Add", ["acc_in", "acc_in"], ["acc_out"])]
                if cond_live:
                    body_nodes += [helper.make_node("Not", ["cond_in"], ["cond_out"])]
                else:
                    body_nodes += [helper.make_node("Identity", ["cond_in"], ["cond_out"])]
                body = helper.make_graph(body_nodes, "body", [helper.make_tensor_value_info("i", TensorProto.INT64, []), helper.make_tensor_value_info("cond_in", TensorProto.BOOL, []),
                                                              helper.make_tensor_value_info("acc_in", TensorProto.FLOAT, [2])],
                                         [helper.make_tensor_value_info("cond_out", TensorProto.BOOL, []), helper.make_tensor_value_info("acc_out", TensorProto.FLOAT, [2])])
                node = helper.make_node("Loop", ["trip", "", "init"], ["final"], body=body)
                I.models[exp._Exporter._translate_graph_body] = lambda interp, slf, g, opsets, indent=0: "        <body>"
                case = f"trip count {'inlined' if trip_inlined else 'a value'}, initial state {'inlined' if init_inlined else 'a value'}, condition {'live' if cond_live else 'unused'}"
                try:
                    text = I.run_closure(I.closure_of(exp._Exporter._translate_loop), [ex, node, {"": 18}], {"indent": 1})
                except Exception as e:  # noqa: BLE001
                    agg.ob("C13.export.loop.header_reads_values_as_every_other_use_does", False, f"{case}: {type(e).__name__}: {e}", cl, case=case)
                    continue
                lines = text.splitlines()
                header = [ln for ln in lines if ln.strip().startswith(("for ", "while "))]
                reads_ok = True
                why = []
                if trip_inlined and not any("range(3)" in h for h in header):
                    reads_ok = False
                    why.append(f"the trip count was inlined as 3 but the header is {header}")
                if init_inlined and not any(ln.strip() == "acc_in = [1.0, 2.0]" for ln in lines):
                    reads_ok = False
                    why.append("the initial state was inlined as [1.0, 2.0] but the loop reads the removed name: " + str([ln.strip() for ln in lines if ln.strip().startswith("acc_in =")]))
                agg.ob("C13.export.loop.header_reads_values_as_every_other_use_does", reads_ok, f"{case}: " + "; ".join(why), cl, case=case)
                if cond_live:
                    brk = [i for i, ln in enumerate(lines) if ln.strip() == "break"]
                    ok = bool(brk) and all(lines[i - 1].strip().startswith("if ") and " not " not in lines[i - 1] and lines[i - 1].strip()[3:-1].isidentifier() for i in brk)
                    agg.ob("C13.export.loop.break_is_printed_in_the_form_the_converter_accepts", ok,
                           f"{case}: emitted {[ln.strip() for ln in lines if 'break' in ln or ln.strip().startswith('if ')]} — the converter accepts only `if <name>: break`", cl, case="for-loop with a live condition")
    return {"obligations": agg.obs, "paths": n, "covered": [f"loop_cases={n}"], "notes": [], "functions": []}


SCENARIOS.append(Scenario("C13.export.loop", s_translate_loop, [(REL, "_Exporter._translate_loop"), (REL, "_Exporter._emit_assign"), (REL, "_Exporter._emit_assign.to_var"),
                                                                (REL, "_Exporter._emit_assign.assign")], kind="evaluation"))


def s_attribute_text(_ctx):
    """_Exporter._translate_attributes (real source, real NodeProto): the text printed for an attribute is a Python
    expression over the names the generated module imports (np, make_tensor, external_tensor) that EVALUATES to the
    attribute's value — floats incl. nan / inf / -inf, lists, ints, strings (also the strings 'nan' / 'inf'), tensors."""
    import math
    import numpy as np
    import onnx
    from onnx import helper, numpy_helper
    from contracts.c17_opsets import Agg
    from pyvc.core import Ctx
    exp = _exp()
    agg = Agg()
    cl = "C13: 'constants incl. nan/inf/negative/0-d/1-d' — 'it never emits text that is not valid Python or that denotes a different computation'"
    cases = [("alpha", 0.5), ("alpha", float("inf")), ("alpha", float("-inf")), ("alpha", float("nan")), ("alpha", -0.0), ("floats", [1.0, float("inf")]),
             ("floats", [float("nan")]), ("floats", [-1.5, 2.0]), ("axis", -3), ("axes", [0, -1]), ("mode", "inf"), ("mode", "nan's"), ("modes", ["inf", "linear"]),
             ("value", np.array([float("nan"), 1.0], dtype=np.float32)), ("value", np.array(float("-inf"), dtype=np.float32)), ("value", np.array([[1, 2]], dtype=np.int64)),
             ("value", np.array(["banana", "info"], dtype=object)), ("value", np.array("nan", dtype=object)), ("value", np.array([True, False]))]
    env = {"np": np, "make_tensor": helper.make_tensor}
    n = 0

    def same(a, b):
        if isinstance(a, float) and isinstance(b, float):
            return (math.isnan(a) and math.isnan(b)) or (a == b and math.copysign(1, a) == math.copysign(1, b))
        if isinstance(a, (list, tuple)) and isinstance(b, (list, tuple)):
            return len(a) == len(b) and all(same(x, y) for x, y in zip(a, b))
        return type(a) is type(b) and a == b
    for name, value in cases:
        n += 1
        label = f"{name}={value!r}".replace("\n", " ")
        ctx = Ctx([], {"solver_s": 0.0, "queries": 0})
        I = Interp(ctx)
        if isinstance(value, np.ndarray):
            node = helper.make_node("Op", [], ["y"], **{name: numpy_helper.from_array(value, "t")})
        else:
            node = helper.make_node("Op", [], ["y"], **{name: value})
        ex = exp._Exporter(rename=False, use_operators=False, inline_const=False, skip_initializers=False)
        try:
            text = I.run_closure(I.closure_of(exp._Exporter._translate_attributes), [ex, node], {})
            k, _, v = text.partition("=")
            got = eval(v, dict(env))
            if isinstance(value, np.ndarray):
                arr = numpy_helper.to_array(got)
                if value.dtype == object:    # a STRING tensor: elements come back as bytes
                    ok = arr.shape == value.shape and [x.decode() if isinstance(x, bytes) else x for x in arr.ravel().tolist()] == value.ravel().tolist()
                else:
                    ok = arr.dtype == value.dtype and arr.shape == value.shape and np.array_equal(arr, value, equal_nan=True)
            elif isinstance(value, float) or (isinstance(value, list) and value and isinstance(value[0], float)):
                # a FLOAT attribute is stored as float32
                want = float(np.float32(value)) if isinstance(value, float) else [float(np.float32(x)) for x in value]
                ok = same(got, want)
            else:
                ok = same(got, value)
            detail = f"{label}: printed as {text!r}, which evaluates to {got!r}"
        except Exception as e:  # noqa: BLE001
            ok, detail = False, f"{label}: printed as {locals().get('text')!r}: {type(e).__name__}: {e}"
        agg.ob("C13.export.attribute_text.evaluates_to_the_attribute_value", ok, detail, cl, case=label[:60])
    return {"obligations": agg.obs, "paths": n, "covered": [f"attribute_cases={n}"], "notes": [], "functions": []}


SCENARIOS.append(Scenario("C13.export.attribute_text", s_attribute_text, [(REL, "_Exporter._translate_attributes"), (REL, "_attribute_value"), (REL, "_to_str")],
                          kind="evaluation"))


def s_translate_if(_ctx):
    """_Exporter._translate_if (real source, real NodeProto): `if <cond>:` + the then-branch body + one assignment per If
    output from the then-branch's output at the same position, `else:` + the same for the else-branch — whichever order the
    two graph attributes are stored in — so that after the statement every If output holds the selected branch's value."""
    from onnx import helper, TensorProto
    from contracts.c17_opsets import Agg
    from pyvc.core import Ctx
    exp = _exp()
    agg = Agg()
    cl = "C13: 'every tensor-typed model over standard-domain operators with If and Loop bodies' round-trips"
    n = 0
    for else_first in (False, True):
        for n_out in (1, 2):
            for cond_inlined in (False, True):
                n += 1
                ctx = Ctx([], {"solver_s": 0.0, "queries": 0})
                I = Interp(ctx)
                ex = exp._Exporter(rename=False, use_operators=False, inline_const=True, skip_initializers=False)
                ex._name_remappings.append({})
                if cond_inlined:
                    ex.constants["c"] = "True"

                def vi_(nm):
                    return helper.make_tensor_value_info(nm, TensorProto.FLOAT, [2])
                tg = helper.make_graph([helper.make_node("Relu", ["x"], [f"t{i}"]) for i in range(n_out)], "then", [], [vi_(f"t{i}") for i in range(n_out)])
                eg = helper.make_graph([helper.make_node("Neg", ["x"], [f"e{i}"]) for i in range(n_out)], "else", [], [vi_(f"e{i}") for i in range(n_out)])
                kw = [("else_branch", eg), ("then_branch", tg)] if else_first else [("then_branch", tg), ("else_branch", eg)]
                node = helper.make_node("If", ["c"], [f"y{i}" for i in range(n_out)])
                for k, g in kw:
                    node.attribute.append(helper.make_attribute(k, g))
                I.models[exp._Exporter._translate_graph_body] = lambda interp, slf, g, opsets, indent=0: "    " * indent + f"<{g.name} body>"
                case = f"{'else' if else_first else 'then'} attribute first, {n_out} output(s), condition {'inlined' if cond_inlined else 'a value'}"
                try:
                    text = I.run_closure(I.closure_of(exp._Exporter._translate_if), [ex, node, {"": 18}], {"indent": 1})
                    lines = text.splitlines()
                    # decided by EXECUTING the emitted statement (branch bodies replaced by a marker assignment), not by comparing text: any
                    # correct form of the assignments (one per line, one parallel assignment, ...) passes
                    import textwrap
                    code = textwrap.dedent("\n".join(ln.replace("<then body>", "taken = 'then'").replace("<else body>", "taken = 'else'") for ln in lines))
                    ok = True
                    seen = []
                    for cval in ((True,) if cond_inlined else (True, False)):
                        env = {"c": cval, **{f"t{i}": 10 + i for i in range(n_out)}, **{f"e{i}": 20 + i for i in range(n_out)}}
                        exec(code, {}, env)  # noqa: S102 - the exporter's own if-statement, on integers
                        src = "t" if cval else "e"
                        seen.append((cval, env.get("taken"), [env.get(f"y{i}") for i in range(n_out)]))
                        ok = ok and env.get("taken") == ("then" if cval else "else") and all(env.get(f"y{i}") == env[f"{src}{i}"] for i in range(n_out))
                    hdr = lines[0].strip() == "if " + ("True" if cond_inlined else "c") + ":"
                    ok = ok and hdr
                    detail = f"{case}: emitted {lines}; executed: {seen}"
                except Exception as e:  # noqa: BLE001
                    ok, detail = False, f"{case}: {type(e).__name__}: {e}"
                agg.ob("C13.export.if.both_branches_assign_every_output_from_the_branch_output_at_the_same_position", ok, detail, cl, case=case)
    return {"obligations": agg.obs, "paths": n, "covered": [f"if_cases={n}"], "notes": [], "functions": []}


SCENARIOS.append(Scenario("C13.export.if", s_translate_if, [(REL, "_Exporter._translate_if"), (REL, "_Exporter._emit_assign")], kind="evaluation"))


def s_graph_text_layout(ctx):
    """_translate_graph (+ _substitute_initializers): for every setting of skip_initializers and whether or not some initializer is
    large enough to be skipped, the emitted text is valid Python whose layout is either a top-level script function or a script
    function nested in `make_model(<skipped initializers>)` — never an indented top-level statement."""
    import ast as _ast
    import onnx
    I = Interp(ctx)
    exp = _exp()
    self = _exporter_standin()
    skip = ctx.choose(2, "skip_initializers") == 1
    n_skipped = ctx.choose(3, "initializers large enough to be skipped") if skip else 0
    use_ops = ctx.choose(2, "use_operators") == 0
    doc = ["", "a doc string"][ctx.choose(2, "doc string")]
    self.fields.update(use_operators=use_ops, skip_initializers=skip, skipped_initializers={}, _name_remappings=[], _attr_renaming={},
                       _names_used=set(), constants={})

    def ident(n):
        raise AssertionError
    I.models[ident] = lambda interp, n: n
    self.fields["_rename_variable"] = ident

    def m_body(interp, slf, g, opsets, indent=0):
        # what the real _translate_graph_body does with initializers: the large ones are recorded, not emitted
        for k in range(n_skipped):
            t = onnx.TensorProto()
            t.name = f"w{k}"
            t.data_type = onnx.TensorProto.FLOAT
            t.dims.extend([64, 64])
            slf.fields["skipped_initializers"][f"w{k}"] = t
        return "    " * indent + "y = opset18.Relu(x)"
    I.models[exp._Exporter._translate_graph_body] = m_body
    I.models[exp._translate_signature] = lambda interp, i, o, *a: "(x):"
    I.models[exp._translate_value_infos] = lambda interp, vi: "{}"

    def imp(domain, version):
        o = SObj(onnx.OperatorSetIdProto, "opsetid")
        o.fields.update(domain=domain, version=version)
        return o
    g = SObj(onnx.GraphProto, "graph")
    g.fields.update(name="g", input=[], output=["y"], doc_string=doc, value_info=[])
    m = SObj(onnx.ModelProto, "model")
    m.fields.update(graph=g, opset_import=[imp("", 18)])
    text = I.run_closure(I.closure_of(exp._Exporter._translate_graph), [self, m, "main"], {})
    ok = isinstance(text, str)
    tree = None
    if ok:
        try:
            tree = _ast.parse(text)
        except SyntaxError:
            ok = False
    CLX = "C13: 'it never emits text that is not valid Python' — 'under every export option (rename, use_operators, inline_const, skip_initializers)'"
    ctx.check("C13.export.graph_text.is_valid_python_for_every_option", ok, CLX)
    if not ok:
        return
    tops = [n for n in tree.body if isinstance(n, _ast.FunctionDef)]
    if n_skipped:
        mk = [n for n in tops if n.name == "make_model"]
        inner = [n for n in (mk[0].body if mk else []) if isinstance(n, _ast.FunctionDef) and n.name == "main"]
        ctx.check("C13.export.graph_text.skipped_initializers_are_the_parameters_of_make_model",
                  bool(mk) and [a.arg for a in mk[0].args.args] == [f"w{k}" for k in range(n_skipped)] and len(inner) == 1, CLX)
    else:
        nested = [n for t in tops for n in t.body if isinstance(n, _ast.FunctionDef) and n.name == "main"]
        ctx.check("C13.export.graph_text.defines_the_script_function", any(n.name == "main" for n in tops) or len(nested) == 1, CLX)


SCENARIOS.append(Scenario("C13.export.graph_text_layout", s_graph_text_layout,
                          [(REL, "_Exporter._translate_graph"), (REL, "_Exporter._substitute_initializers")]))


def s_initializer_names(_ctx):
    """_translate_graph_body (+ the real _translate_node / _translate_onnx_var): the Python variable that receives an initializer's
    Constant is the variable its uses are translated to — for every renaming function, in particular one that is NOT idempotent
    (rename=True hands out a fresh short name for every string it has not seen, so translating a name twice gives another name)."""
    import numpy as np
    import onnx
    from onnx import helper, numpy_helper, TensorProto
    from contracts.c17_opsets import Agg
    from pyvc.core import Ctx
    exp = _exp()
    agg = Agg()
    cl = ("C13: 'under every export option (rename, use_operators, inline_const, skip_initializers)' the emitted source 'computes the same "
          "outputs as the original' — an initializer must be assigned under the name its consumers read")
    renamers = {
        "cleanup (rename=False)": lambda: exp._cleanup_variable_name,
        "short names (rename=True)": lambda: exp._make_short_name_mapper(),
        "an injective, non-idempotent renaming": lambda: (lambda name: "r_" + exp._cleanup_variable_name(name)),
    }
    n = 0
    for rk, mk in renamers.items():
        for init_name in ("w", "layer.0.weight"):
            n += 1
            ctx = Ctx([], {"solver_s": 0.0, "queries": 0})
            I = Interp(ctx)
            self = _exporter_standin()
            ren = mk()
            seen = {}

            def renamer(nm):
                raise AssertionError

            def m_ren(interp, nm, ren=ren, seen=seen):
                r = ren(nm)
                seen.setdefault(nm, r)
                return r
            I.models[renamer] = m_ren
            self.fields.update(use_operators=False, inline_const=False, constants={}, _name_remappings=[{}], _rename_variable=renamer,
                               skip_initializers=False, skipped_initializers={}, _attr_renaming={}, _names_used=set())
            g = helper.make_graph([helper.make_node("Add", ["x", init_name], ["y"])], "g",
                                  [helper.make_tensor_value_info("x", TensorProto.FLOAT, [2])], [helper.make_tensor_value_info("y", TensorProto.FLOAT, [2])],
                                  initializer=[numpy_helper.from_array(np.array([1, 2], np.float32), init_name)])
            try:
                text = I.run_closure(I.closure_of(exp._Exporter._translate_graph_body), [self, g, {"": 18}], {"indent": 1})
            except Exception as e:  # noqa: BLE001
                agg.ob("C13.export.initializer.assigned_under_the_name_its_uses_read", False, f"{rk}, initializer {init_name!r}: {type(e).__name__}: {e}", cl,
                       case=f"{rk}: {init_name}")
                continue
            ok, detail = False, f"{rk}, initializer {init_name!r}: emitted {text!r}"
            try:
                import textwrap
                body = ast.parse(textwrap.dedent(text)).body
                assigned = [t.id for s in body if isinstance(s, ast.Assign) and isinstance(s.value, ast.Call) and getattr(s.value.func, "attr", "") == "Constant"
                            for t in s.targets if isinstance(t, ast.Name)]
                adds = [s.value for s in body if isinstance(s, ast.Assign) and isinstance(s.value, ast.Call) and getattr(s.value.func, "attr", "") == "Add"]
                used = [a.id for c in adds for a in c.args if isinstance(a, ast.Name)]
                ok = len(assigned) == 1 and len(used) == 2 and assigned[0] == used[1]
                if not ok:
                    detail += f": the Constant is assigned to {assigned} while Add reads {used}"
            except SyntaxError as e:
                detail += f" - not valid Python ({e})"
            agg.ob("C13.export.initializer.assigned_under_the_name_its_uses_read", ok, detail, cl, case=f"{rk}: {init_name}")
    return {"obligations": agg.obs, "paths": n, "covered": [f"renamings={n}"], "notes": [], "functions": []}


SCENARIOS.append(Scenario("C13.export.initializer_names", s_initializer_names,
                          [(REL, "_Exporter._translate_graph_body"), (REL, "_Exporter._translate_node"), (REL, "_Exporter._translate_onnx_var")], kind="evaluation"))


def s_loop_protocol(_ctx):
    """_Exporter._translate_loop — the loop-carried protocol of an ONNX Loop in the emitted text (body text abstract):
      before the loop   state variables := the node's initial values, condition variable := the initial condition (when given);
      inside the body   the variable that holds the INCOMING condition / state is not the one the body assigns for the next condition /
                        state (a body may read cond_in after computing cond_out) — except the documented FOR case where the condition is unused;
      end of the body   condition variable := next condition (when the condition is live), then state variables := next state;
      after the loop    node outputs := state variables.
    Loop kinds: trip count only / condition only / both, condition live or not."""
    from onnx import helper, TensorProto
    from contracts.c17_opsets import Agg
    from pyvc.core import Ctx
    exp = _exp()
    agg = Agg()
    cl = ("C13: the emitted source 'computes the same outputs as the original for every input' — ONNX Loop: body inputs (iteration, condition, state) "
          "are the values at the START of the iteration; body outputs become the next condition and state")
    n = 0
    for has_trip in (False, True):
        for has_cond in (False, True):
            for cond_live in (False, True):
                if not has_trip and not (has_cond or cond_live):
                    continue   # no stop condition: refused by the exporter
                n += 1
                case = f"trip count {'given' if has_trip else 'absent'}, condition input {'given' if has_cond else 'absent'}, condition {'computed in the body' if cond_live else 'passed through'}"
                ctx = Ctx([], {"solver_s": 0.0, "queries": 0})
                I = Interp(ctx)
                ex = exp._Exporter(rename=False, use_operators=False, inline_const=False, skip_initializers=False)
                ex._name_remappings.append({})
                body_nodes = [helper.make_node("Add", ["acc_in", "acc_in"], ["acc_out"])]
                body_nodes += [helper.make_node("Not", ["cond_in"], ["cond_out"])] if cond_live else [helper.make_node("Identity", ["cond_in"], ["cond_out"])]
                body = helper.make_graph(body_nodes, "body", [helper.make_tensor_value_info("i", TensorProto.INT64, []), helper.make_tensor_value_info("cond_in", TensorProto.BOOL, []),
                                                              helper.make_tensor_value_info("acc_in", TensorProto.FLOAT, [2])],
                                         [helper.make_tensor_value_info("cond_out", TensorProto.BOOL, []), helper.make_tensor_value_info("acc_out", TensorProto.FLOAT, [2])])
                node = helper.make_node("Loop", ["trip" if has_trip else "", "c0" if has_cond else "", "init"], ["final"], body=body)
                seen = {}

                def m_body(interp, slf, g, opsets, indent=0, seen=seen):
                    # the names the body text will read / assign, at the moment the body is translated
                    for nm in ("cond_in", "cond_out", "acc_in", "acc_out"):
                        seen[nm] = interp.call(interp.getattr(slf, "_translate_onnx_var"), [nm])
                    return "    " * indent + "<body>"
                I.models[exp._Exporter._translate_graph_body] = m_body
                try:
                    text = I.run_closure(I.closure_of(exp._Exporter._translate_loop), [ex, node, {"": 18}], {"indent": 1})
                except Exception as e:  # noqa: BLE001
                    agg.ob("C13.export.loop.protocol.translates_every_loop_with_a_stop_condition", False, f"{case}: {type(e).__name__}: {e}", cl, case=case)
                    continue
                lines = text.splitlines()
                bi = [i for i, ln in enumerate(lines) if ln.strip() == "<body>"]
                ok_body = len(bi) == 1
                agg.ob("C13.export.loop.protocol.body_translated_once", ok_body, f"{case}: {lines}", cl, case=case)
                if not ok_body:
                    continue
                bi = bi[0]
                hdr = [i for i, ln in enumerate(lines[:bi]) if ln.strip().startswith(("for ", "while "))]
                before = [ln.strip() for ln in lines[:hdr[0]]] if hdr else []
                in_body_after = [ln.strip() for ln in lines[bi + 1:] if ln.startswith("        ")]
                after_loop = [ln.strip() for ln in lines[bi + 1:] if not ln.startswith("        ")]
                live = has_cond or cond_live   # the condition decides the iteration count
                agg.ob("C13.export.loop.protocol.state_initialised_before_the_loop", f"{seen['acc_in']} = init" in before and (not has_cond or f"{seen['cond_in']} = c0" in before),
                       f"{case}: statements before the loop: {before}", cl, case=case)
                agg.ob("C13.export.loop.protocol.incoming_state_is_not_overwritten_inside_the_body", seen["acc_in"] != seen["acc_out"],
                       f"{case}: the body reads acc_in as {seen['acc_in']!r} and assigns acc_out as {seen['acc_out']!r}", cl, case=case)
                if live:
                    agg.ob("C13.export.loop.protocol.incoming_condition_is_not_overwritten_inside_the_body", seen["cond_in"] != seen["cond_out"],
                           f"{case}: the body reads cond_in as {seen['cond_in']!r} and assigns cond_out as {seen['cond_out']!r}: a later read of the incoming condition "
                           "(Where(cond_in, ...)) would see the next one", cl, case=case)
                    want = f"{seen['cond_in']} = {seen['cond_out']}"
                    agg.ob("C13.export.loop.protocol.condition_updated_at_the_end_of_the_body", want in in_body_after,
                           f"{case}: statements after the body text: {in_body_after}", cl, case=case)
                agg.ob("C13.export.loop.protocol.state_updated_at_the_end_of_the_body", f"{seen['acc_in']} = {seen['acc_out']}" in in_body_after,
                       f"{case}: statements after the body text: {in_body_after}", cl, case=case)
                agg.ob("C13.export.loop.protocol.outputs_assigned_after_the_loop", f"final = {seen['acc_in']}" in after_loop, f"{case}: statements after the loop: {after_loop}", cl, case=case)
    return {"obligations": agg.obs, "paths": n, "covered": [f"loop_kinds={n}"], "notes": [], "functions": []}


SCENARIOS.append(Scenario("C13.export.loop_protocol", s_loop_protocol, [(REL, "_Exporter._translate_loop"), (REL, "_Exporter._emit_assign"), (REL, "_Exporter._translate_onnx_var")],
                          kind="evaluation", trusted=["_translate_graph_body emits, in order, one statement per body node that reads the variables _translate_onnx_var gives the node's "
                                                      "inputs and assigns the ones it gives the node's outputs (its own contracts: operator_text, initializer_names, attribute_text)"]))


def s_loop_state_simultaneous(_ctx):
    """ONNX Loop: ALL next-state values are the body outputs of the finished iteration (simultaneous update).  A body may return its own
    state inputs permuted (outputs b_in, a_in for inputs a_in, b_in), or feed one state's input to another; the statements the exporter
    emits at the end of the body are EXECUTED here (plain Python on integers) and must have the effect of the simultaneous update —
    whatever their syntactic form (tuple assignment, temporaries, ...).  (Outer names that coincide with body names are not considered:
    ONNX requires the names of a graph and its subgraphs to be distinct.)"""
    from onnx import helper, TensorProto
    from contracts.c17_opsets import Agg
    from pyvc.core import Ctx
    exp = _exp()
    agg = Agg()
    cl = ("C13: the emitted source 'computes the same outputs as the original for every input' — ONNX Loop: the body outputs of an iteration become the "
          "state of the next one, all at once")
    cases = {
        "body returns its two state inputs swapped": (["a_in", "b_in"], ["b_in", "a_in"], ["x0", "y0"], ["fa", "fb"]),
        "body passes state a on to state b and computes a": (["a_in", "b_in"], ["a_new", "a_in"], ["x0", "y0"], ["fa", "fb"]),
        "three states rotated": (["a_in", "b_in", "c_in"], ["c_in", "a_in", "b_in"], ["x0", "y0", "z0"], ["fa", "fb", "fc"]),
    }
    n = 0
    for case, (fin, fout, ain, aout) in cases.items():
        n += 1
        ctx = Ctx([], {"solver_s": 0.0, "queries": 0})
        I = Interp(ctx)
        ex = exp._Exporter(rename=False, use_operators=False, inline_const=False, skip_initializers=False)
        ex._name_remappings.append({})
        computed = [o for o in fout if o not in fin]
        body_nodes = [helper.make_node("Identity", ["cond_in"], ["cond_out"])] + [helper.make_node("Neg", [fin[0]], [o]) for o in computed]
        vi = lambda nm, t=TensorProto.FLOAT: helper.make_tensor_value_info(nm, t, [])
        body = helper.make_graph(body_nodes, "body", [vi("i", TensorProto.INT64), vi("cond_in", TensorProto.BOOL)] + [vi(x) for x in fin],
                                 [vi("cond_out", TensorProto.BOOL)] + [vi(x) for x in fout])
        node = helper.make_node("Loop", ["trip", ""] + ain, aout, body=body)
        I.models[exp._Exporter._translate_graph_body] = lambda interp, slf, g, opsets, indent=0: "    " * indent + "pass  # <body>"
        try:
            text = I.run_closure(I.closure_of(exp._Exporter._translate_loop), [ex, node, {"": 18}], {"indent": 1})
        except Exception as e:  # noqa: BLE001
            agg.ob("C13.export.loop.protocol.translates_every_loop_with_a_stop_condition", False, f"{case}: {type(e).__name__}: {e}", cl, case=case)
            continue
        lines = text.splitlines()
        bi = [i for i, ln in enumerate(lines) if ln.strip().startswith("pass  # <body>")]
        hdr = [i for i, ln in enumerate(lines) if ln.strip().startswith(("for ", "while "))]
        if len(bi) != 1 or len(hdr) != 1:
            agg.ob("C13.export.loop.protocol.body_translated_once", False, f"{case}: {lines}", cl, case=case)
            continue
        import textwrap

        def run(stmts, env):
            env = dict(env)
            exec(textwrap.dedent("\n".join(stmts)) or "pass", {}, env)  # noqa: S102 - the exporter's own assignment statements, on integers
            return env
        before = lines[:hdr[0]]
        end_of_body = [ln for ln in lines[bi[0] + 1:] if ln.startswith("        ")]
        after = [ln for ln in lines[bi[0] + 1:] if not ln.startswith("        ")]
        names = sorted(set(fin + fout + ain + aout + ["cond_in", "cond_out", "trip"]))
        env0 = {nm: 100 + k for k, nm in enumerate(names)}
        try:
            e1 = run(before, env0)
            ok1 = all(e1[f] == env0[a] for f, a in zip(fin, ain))
            e2 = run(end_of_body, env0)
            ok2 = all(e2[f] == env0[o] for f, o in zip(fin, fout))
            e3 = run(after, env0)
            ok3 = all(e3[o] == env0[f] for o, f in zip(aout, fin))
        except Exception as e:  # noqa: BLE001
            agg.ob("C13.export.loop.protocol.state_statements_are_plain_assignments", False, f"{case}: {type(e).__name__}: {e}: {lines}", cl, case=case)
            continue
        agg.ob("C13.export.loop.protocol.initial_state_is_assigned_simultaneously", ok1, f"{case}: statements before the loop {[x.strip() for x in before]}", cl, case=case)
        agg.ob("C13.export.loop.protocol.next_state_is_assigned_simultaneously", ok2,
               f"{case}: statements at the end of the body {[x.strip() for x in end_of_body]}: executed from {[(f, env0[f]) for f in fin]}, next state should be "
               f"{[(f, env0[o]) for f, o in zip(fin, fout)]} but is {[(f, e2[f]) for f in fin]}", cl, case=case)
        agg.ob("C13.export.loop.protocol.final_outputs_are_assigned_simultaneously", ok3, f"{case}: statements after the loop {[x.strip() for x in after]}", cl, case=case)
    return {"obligations": agg.obs, "paths": n, "covered": [f"loop_state_cases={n}"], "notes": [], "functions": []}


SCENARIOS.append(Scenario("C13.export.loop_state_simultaneous", s_loop_state_simultaneous, [(REL, "_Exporter._translate_loop"), (REL, "_Exporter._emit_assign")], kind="evaluation"))


def s_function_value_names(_ctx):
    """_Exporter._translate_function (real source, with the real renamer of rename=False): inside one function, an attribute parameter
    and the values of the body get pairwise different Python names — also when a value is named like the attribute parameter (it is
    given an alternate name `<attr>_<k>`) while ANOTHER value's cleaned-up name is that alternate."""
    import onnx
    from onnx import helper
    from contracts.c17_opsets import Agg
    exp = _exp()
    agg = Agg()
    cl = "C13: 'names that collide after clean-up, attribute names equal to value names' — two different ONNX values must not share a Python name"
    n = 0
    for other in ("alpha.0", "alpha_0", "alpha.1", "beta"):
        for rename in (False,):
            n += 1
            case = f"attribute alpha, a value named alpha, another value named {other!r}"
            const = helper.make_node("Constant", [], ["alpha"])
            a = onnx.AttributeProto()
            a.name, a.ref_attr_name, a.type = "value_float", "alpha", onnx.AttributeProto.FLOAT
            const.attribute.append(a)
            f = helper.make_function("local", "Affine", ["X"], ["Y"], [const, helper.make_node("Mul", ["X", "alpha"], [other]), helper.make_node("Add", [other, "alpha"], ["Y"])],
                                     [helper.make_opsetid("", 17)], attributes=["alpha"])
            ex = exp._Exporter(rename=rename, use_operators=False, inline_const=False, skip_initializers=False)
            try:
                text = ex._translate_function(f)
            except Exception as e:  # noqa: BLE001
                agg.ob("C13.export.function.values_and_attribute_parameters_get_distinct_python_names", False, f"{case}: {type(e).__name__}: {e}", cl, case=case)
                continue
            ok, detail = False, f"{case}: emitted\n{text}"
            try:
                fn = [s for s in ast.parse(text).body if isinstance(s, ast.FunctionDef)][0]
                targets = [t.id for s in fn.body if isinstance(s, ast.Assign) for t in s.targets if isinstance(t, ast.Name)]
                params = [x.arg for x in fn.args.args + fn.args.kwonlyargs]
                ok = len(targets) == 3 and len(set(targets)) == 3 and not (set(targets) & set(params))
                if not ok:
                    detail = f"{case}: the three values Constant / Mul / Add are assigned to {targets}, parameters are {params}"
            except (SyntaxError, IndexError) as e:
                detail += f" - cannot be parsed ({e})"
            agg.ob("C13.export.function.values_and_attribute_parameters_get_distinct_python_names", ok, detail, cl, case=case)
    return {"obligations": agg.obs, "paths": n, "covered": [f"functions={n}"], "notes": [], "functions": []}


SCENARIOS.append(Scenario("C13.export.function_value_names", s_function_value_names,
                          [(REL, "_Exporter._translate_function"), (REL, "_Exporter._handle_attrname_conflict.new_renamer"), (REL, "_names_used_in_function")], kind="evaluation"))


def s_local_function_calls(_ctx):
    """export(): a node that calls a MODEL-LOCAL function is printed as a call of the script function generated for that function (so that
    the re-imported model contains the function), an operator node as `<opset>.<Op>(...)`.  Decided on the real exporter and converter:
    the exported module is executed and the re-imported model must contain the same functions and (onnxruntime) compute the same."""
    from contracts.c17_opsets import Agg
    import sys
    sys.path.insert(0, "/verif")
    from replay_lib import c13_local_functions as L
    agg = Agg()
    cl = "C13: 'every tensor-typed model over standard-domain operators with If and Loop bodies, model-local functions with attribute references' round-trips"
    bad = L.failures()
    agg.ob("C13.export.local_functions.a_call_of_a_model_local_function_round_trips_with_the_function", not bad, "; ".join(bad[:2]), cl)
    # text level: the callee of the emitted call statement is the NAME the function definition is given
    import onnx
    from onnx import helper as oh, TensorProto as TP
    exp = _exp()
    for what, m in L.models():
        ex = exp._Exporter(rename=False, use_operators=False, inline_const=False, skip_initializers=False)
        text = ex.export(m, "main")
        import ast as _ast
        tree = _ast.parse(text)
        defs = {n.name for n in tree.body if isinstance(n, _ast.FunctionDef)}
        calls = [c for n in tree.body if isinstance(n, _ast.FunctionDef) for c in _ast.walk(n) if isinstance(c, _ast.Call)]
        local = {f.name for f in m.functions}
        ok = True
        for c in calls:
            callee = c.func
            nm = callee.attr if isinstance(callee, _ast.Attribute) else getattr(callee, "id", None)
            if nm in local:
                ok = ok and isinstance(callee, _ast.Name) and callee.id in defs
        agg.ob("C13.export.local_functions.the_callee_is_the_generated_script_function", ok, f"{what}: {[_ast.unparse(c.func) for c in calls]}; definitions {sorted(defs)}", cl, case=what)
    return {"obligations": agg.obs, "paths": 2, "covered": ["local_function_models=2"], "notes": [], "functions": []}


SCENARIOS.append(Scenario("C13.export.local_functions", s_local_function_calls, [(REL, "_Exporter.export"), (REL, "_Exporter._translate_node"), (REL, "_Exporter._make_callee_name")],
                          kind="evaluation", trusted=["onnxruntime as the reference for 'computes the same'"]))
