"""C06 — the match state (`_basics.MatchResult` / `PartialMatchResult`) for a stack of partial matches of ANY depth and binding tables of
ANY size (deductive; the bounded scenario `C06.basics.match_state` of c06_matcher.py stays as a cross-check on real dicts).

The stack `_partial_matches` is a sequence of symbolic length D >= 1; the three binding tables of the partial match at position k are
symbolic maps (z3 arrays key -> present / key -> value, `pyvc.interp.SMap`), keys being symbolic variable names (bindings), value-pattern
identities (value_bindings) and node-pattern identities (node_bindings); bound values / nodes are identified by integers (the code compares
them with `==`, which is identity for ir.Value / ir.Node).  The loops `for match in self._partial_matches` get an inductive invariant stated
for one arbitrary (Skolem) stack position p0.

  bind / bind_value / lookup_node   a name (anonymous value pattern, node pattern) used twice binds ONE value: the call succeeds without
                                    writing iff some partial match of the stack binds it to the same value, fails the CURRENT partial
                                    match (and only it) iff some partial match binds it to another value, and otherwise records the
                                    binding in the current partial match only
  enter_new_match                   pushes an empty successful partial match, everything below unchanged
  abandon_current_match             pops exactly the top partial match; the stack below is the SAME objects (state restored exactly)
  merge_current_match / PartialMatchResult.merge
                                    nothing is lost: for every key of each of the three tables, bound afterwards iff bound in either part,
                                    with the alternative's value when it has one; matched nodes = the parent's followed by the alternative's
"""
from __future__ import annotations

import z3

from pyvc.harness import Scenario
from pyvc.interp import Interp, PyRaise, LoopSpec, SMap
from pyvc.values import SObj, SStr, SInt, SSeq, term

BREL = "onnxscript/rewriter/_basics.py"
CL_BIND = "C06: 'a variable used twice binds one value ... The bindings returned are exactly the instance's values'"
CL = "C06: 'a match is reported if and only if the subgraph ending at that node is an instance of the pattern under its documented meaning' (OR alternatives: a failed alternative leaves no trace, a successful one loses nothing)"
I_ = z3.IntSort()
S_ = z3.StringSort()


class World:
    """A MatchResult whose stack has symbolic depth D; the tables of the partial match at position k are Has_*(k) / Val_*(k)."""

    def __init__(self, ctx, I, depth_at_least=1):
        from onnxscript.rewriter import _basics
        self.ctx, self.I = ctx, I
        self.D = ctx.int("stack_depth")
        ctx.assume(self.D >= depth_at_least)
        self.p0 = ctx.int("p0")
        ctx.assume(z3.And(self.p0 >= 0, self.p0 < self.D))
        ctx.witness.update(D=self.D, p0=self.p0)
        A = z3.ArraySort
        self.tabs = {}
        for nm, ks in (("_bindings", S_), ("_value_bindings", I_), ("_node_bindings", I_)):
            self.tabs[nm] = (z3.Function(f"has{nm}", I_, A(ks, z3.BoolSort())), z3.Function(f"val{nm}", I_, A(ks, I_)))
        self.nmatched = z3.Function("n_matched_nodes", I_, I_)
        self.matched = z3.Function("matched_node", I_, I_, I_)
        self.ok = z3.Function("partial_match_successful", I_, z3.BoolSort())
        self._basics = _basics
        self.cache = {}
        self.stack = SSeq(self.D, self.match_at, name="_partial_matches")
        self.stack.mutable = True
        self.m = SObj(_basics.MatchResult, "match")
        self.m.fields["_partial_matches"] = self.stack

    @staticmethod
    def pat_key(k):
        return k.pid if isinstance(k, SObj) and hasattr(k, "pid") else None

    def new_partial(self, k):
        pm = SObj(self._basics.PartialMatchResult, "partial")
        pm.pos = k
        for nm, (has, val) in self.tabs.items():
            pm.fields[nm] = SMap(has(k), val(k), mk=SInt, un=term, name=nm, keyfn=None if nm == "_bindings" else self.pat_key)
        n = z3.If(self.nmatched(k) > 0, self.nmatched(k), 0)
        nodes = SSeq(n, lambda j, k=k: SInt(self.matched(k, j)), name="_matched_nodes")
        nodes.mutable = True
        pm.fields.update(_matched_nodes=nodes, _success=True if k is None else self.ctx.branch(self.ok(k)), _outputs=[], _reason="",
                         _failure_nodes_and_values=[])
        return pm

    def match_at(self, i):
        i = z3.simplify(i)
        # positions are compared semantically: the SAME heap object is handed out for equal positions
        for j, o in self.cache.values():
            if self.ctx.branch(i == j):
                return o
        o = self.new_partial(i)
        self.cache[i.get_id()] = (i, o)
        return o

    def pattern(self, name, cls):
        p = SObj(cls, name)
        p.pid = self.ctx.int(name + "_id")
        return p

    def call(self, name, *a):
        return self.I.call(self.I.getattr(self.m, name), list(a))


def _tab_loop(W, fn, tab, key_term, val_of_found=None):
    """invariant of `for match in self._partial_matches: if key in match.<tab>: ... return`: once the loop has passed the Skolem position
    p0 without returning, the partial match at p0 does not bind the key"""
    has, _val = W.tabs[tab]

    def inv(interp, env, k, pre, it):
        from pyvc.interp import RevSeq
        # the order in which the stack is searched is incidental (a key is bound in at most one partial match): forward or reversed
        passed = (W.p0 >= it.len - k) if isinstance(it, RevSeq) else (k > W.p0)
        return [("a_passed_partial_match_does_not_bind_the_key", z3.Implies(passed, z3.Not(z3.Select(has(W.p0), key_term))))]
    W.I.loops[(fn, 0)] = LoopSpec({}, inv)


def _snapshot(W, key_terms):
    """the tables as they are before the call (terms over the uninterpreted Has/Val: immutable)"""
    return None


def _state_of_top(W):
    top = W.match_at(W.D - 1)
    return top


def _bind_like(ctx, which):
    """bind (which='bind'), bind_value with an anonymous value pattern ('bind_value'), bind_value with a NAMED one ('bind_value.named')"""
    from onnxscript.rewriter import _pattern_ir
    I = Interp(ctx)
    W = World(ctx, I)
    value = SInt(ctx.int("value"))
    top = W.match_at(z3.simplify(W.D - 1))
    ctx.assume(W.ok(W.D - 1))    # binding happens in a partial match that has not failed (the matcher returns at the first failure)
    if not top.fields["_success"]:
        return
    if which == "bind":
        var = z3.String("var")
        tab, key = "_bindings", var
        _tab_loop(W, "MatchResult.bind", tab, key)
        run = lambda: W.call("bind", SStr(var), value)
    elif which == "bind_value":
        pv = W.pattern("value_pattern", _pattern_ir.ValuePattern)
        pv.fields["name"] = None
        tab, key = "_value_bindings", pv.pid
        _tab_loop(W, "MatchResult.bind_value", tab, key)
        run = lambda: W.call("bind_value", pv, value)
    else:
        var = z3.String("var")
        pv = W.pattern("value_pattern", _pattern_ir.ValuePattern)
        pv.fields["name"] = SStr(var)
        tab, key = "_bindings", var
        _tab_loop(W, "MatchResult.bind", tab, key)
        run = lambda: W.call("bind_value", pv, value)
    has, val = W.tabs[tab]
    pre_has_top, pre_val_top = top.fields[tab].has, top.fields[tab].val
    pre = {nm: (top.fields[nm].has, top.fields[nm].val) for nm in W.tabs}
    try:
        r = run()
    except PyRaise as e:
        ctx.check(f"C06.basics.{which}.any_depth.never_raises", False, CL_BIND)
        return
    P = f"C06.basics.{which}.any_depth."
    q = z3.Int("q")
    bound_same = z3.Exists([q], z3.And(q >= 0, q < W.D, z3.Select(has(q), key), z3.Select(val(q), key) == value.t))
    bound_other = z3.Exists([q], z3.And(q >= 0, q < W.D, z3.Select(has(q), key), z3.Select(val(q), key) != value.t))
    now = top.fields[tab]
    unchanged_tabs = z3.And(*[z3.And(top.fields[nm].has == pre[nm][0], top.fields[nm].val == pre[nm][1]) for nm in W.tabs if nm != tab])
    ctx.check(P + "the_other_tables_of_the_current_partial_match_are_untouched", unchanged_tabs, CL_BIND)
    ctx.check(P + "returns_a_bool", r is True or r is False, CL_BIND)
    if r is True:
        wrote = not (now.has is pre_has_top and now.val is pre_val_top)
        ctx.check(P + "success_leaves_the_match_successful", I.truth(W.m) is True, CL_BIND)
        if wrote:
            ctx.cover(f"{which}.any_depth.fresh")
            ctx.check(P + "recorded_only_if_no_partial_match_of_the_stack_binds_the_key", z3.Not(z3.Select(has(W.p0), key)), CL_BIND)
            ctx.check(P + "recorded_in_the_current_partial_match_with_the_given_value_and_nothing_else_changed",
                      z3.And(now.has == z3.Store(pre_has_top, key, True), now.val == z3.Store(pre_val_top, key, value.t)), CL_BIND)
        else:
            ctx.cover(f"{which}.any_depth.rebound")
            ctx.check(P + "success_without_recording_only_if_some_partial_match_binds_the_key_to_the_same_value", bound_same, CL_BIND)
    elif r is False:
        ctx.cover(f"{which}.any_depth.conflict")
        ctx.check(P + "refused_only_if_some_partial_match_binds_the_key_to_another_value", bound_other, CL_BIND)
        ctx.check(P + "a_conflict_fails_the_current_partial_match", I.truth(W.m) is False, CL_BIND)
        ctx.check(P + "a_conflict_records_no_binding", z3.And(now.has == pre_has_top, now.val == pre_val_top), CL_BIND)


def s_bind(ctx):
    _bind_like(ctx, "bind")


def s_bind_value(ctx):
    _bind_like(ctx, "bind_value")


def s_bind_value_named(ctx):
    _bind_like(ctx, "bind_value.named")


def s_lookup_node(ctx):
    from onnxscript.rewriter import _pattern_ir
    I = Interp(ctx)
    W = World(ctx, I)
    pn = W.pattern("node_pattern", _pattern_ir.NodePattern)
    has, val = W.tabs["_node_bindings"]
    _tab_loop(W, "MatchResult.lookup_node", "_node_bindings", pn.pid)
    try:
        r = W.call("lookup_node", pn)
    except PyRaise as e:
        ctx.check("C06.basics.lookup_node.any_depth.never_raises", False, CL_BIND)
        return
    P = "C06.basics.lookup_node.any_depth."
    if r is None:
        ctx.cover("lookup_node.any_depth.none")
        ctx.check(P + "None_only_if_no_partial_match_binds_the_node_pattern", z3.Not(z3.Select(has(W.p0), pn.pid)), CL_BIND)
    else:
        ctx.cover("lookup_node.any_depth.found")
        q = z3.Int("q")
        ok = isinstance(r, SInt)
        ctx.check(P + "a_found_node_is_the_binding_of_some_partial_match_of_the_stack",
                  ok and z3.Exists([q], z3.And(q >= 0, q < W.D, z3.Select(has(q), pn.pid), z3.Select(val(q), pn.pid) == r.t)), CL_BIND)


def s_bind_node(ctx):
    from onnxscript.rewriter import _pattern_ir
    I = Interp(ctx)
    W = World(ctx, I)
    pn = W.pattern("node_pattern", _pattern_ir.NodePattern)
    node = SInt(ctx.int("node"))
    top = W.match_at(z3.simplify(W.D - 1))
    pre = {nm: (top.fields[nm].has, top.fields[nm].val) for nm in W.tabs}
    n0 = top.fields["_matched_nodes"].len
    try:
        W.call("bind_node", pn, node)
    except PyRaise as e:
        ctx.check("C06.basics.bind_node.any_depth.never_raises", False, CL_BIND)
        return
    P = "C06.basics.bind_node.any_depth."
    nb = top.fields["_node_bindings"]
    ctx.check(P + "node_pattern_bound_to_the_node_in_the_current_partial_match",
              z3.And(nb.has == z3.Store(pre["_node_bindings"][0], pn.pid, True), nb.val == z3.Store(pre["_node_bindings"][1], pn.pid, node.t)), CL_BIND)
    nodes = top.fields["_matched_nodes"]
    last = nodes.at(z3.simplify(nodes.len - 1))
    ctx.check(P + "node_appended_to_the_matched_nodes", z3.And(nodes.len == n0 + 1, term(last) == node.t), CL_BIND)
    j0 = ctx.int("j0")
    ctx.assume(z3.And(j0 >= 0, j0 < n0))
    ctx.check(P + "earlier_matched_nodes_kept_in_order", term(nodes.at(j0)) == W.matched(W.D - 1, j0), CL_BIND)
    ctx.check(P + "other_tables_untouched", z3.And(*[z3.And(top.fields[nm].has == pre[nm][0], top.fields[nm].val == pre[nm][1])
                                                    for nm in ("_bindings", "_value_bindings")]), CL_BIND)


def s_enter_abandon(ctx):
    """enter_new_match pushes a fresh EMPTY successful partial match; abandon_current_match pops exactly it: the stack below consists of the
    same objects with the same tables (nothing of the abandoned alternative survives)."""
    I = Interp(ctx)
    W = World(ctx, I)
    D0 = W.D
    below = W.match_at(W.p0)
    pre = {nm: (below.fields[nm].has, below.fields[nm].val) for nm in W.tabs}
    pre_nodes = below.fields["_matched_nodes"]
    pre_len = pre_nodes.len
    try:
        W.call("enter_new_match")
    except PyRaise as e:
        ctx.check("C06.basics.enter_new_match.any_depth.never_raises", False, CL)
        return
    st = W.m.fields["_partial_matches"]
    ctx.check("C06.basics.enter_new_match.any_depth.stack_grows_by_one", isinstance(st, SSeq) and z3.simplify(st.len) .eq(z3.simplify(D0 + 1)) or
              (isinstance(st, SSeq) and st.len == D0 + 1), CL)
    new = st.at(z3.simplify(st.len - 1))
    import onnxscript.rewriter._basics as _b
    fresh = (isinstance(new, SObj) and new.pycls is _b.PartialMatchResult or type(new) is _b.PartialMatchResult) and new is not below
    nf = new.fields if isinstance(new, SObj) else vars(new)
    ctx.check("C06.basics.enter_new_match.any_depth.new_partial_match_is_empty_and_successful",
              fresh and nf["_success"] is True and nf["_bindings"] == {} and nf["_value_bindings"] == {}
              and nf["_node_bindings"] == {} and list(nf["_matched_nodes"]) == [], CL)
    if not fresh:
        return
    ctx.check("C06.basics.enter_new_match.any_depth.partial_matches_below_are_the_same_objects", st.at(W.p0) is below, CL)
    # something happens inside the alternative: a binding, a matched node, then a failure
    var = z3.String("var")
    from onnxscript.rewriter import _pattern_ir
    pn = W.pattern("node_pattern", _pattern_ir.NodePattern)
    # the alternative's own tables are REAL dicts (fresh PartialMatchResult): write to them directly, as bind would after its search
    nf["_bindings"]["v"] = SInt(ctx.int("value"))
    I.call(I.getattr(new, "add_node"), [SInt(ctx.int("node"))])
    I.call(I.getattr(W.m, "fail"), ["no"])
    ctx.check("C06.basics.fail.any_depth.fails_the_current_alternative", I.truth(W.m) is False, CL)
    try:
        r = W.call("abandon_current_match")
    except PyRaise as e:
        ctx.check("C06.basics.abandon_current_match.any_depth.never_raises_inside_an_alternative", False, CL)
        return
    st = W.m.fields["_partial_matches"]
    P = "C06.basics.abandon_current_match.any_depth."
    ctx.check(P + "returns_the_abandoned_alternative", r is new, CL)
    ctx.check(P + "stack_depth_restored", st.len == D0, CL)
    ctx.check(P + "partial_matches_below_are_the_same_objects", st.at(W.p0) is below, CL)
    ctx.check(P + "tables_below_are_untouched",
              z3.And(*[z3.And(below.fields[nm].has == pre[nm][0], below.fields[nm].val == pre[nm][1]) for nm in W.tabs]), CL)
    ctx.check(P + "matched_nodes_below_are_untouched", below.fields["_matched_nodes"] is pre_nodes and pre_nodes.len == pre_len, CL)
    top = st.at(z3.simplify(st.len - 1))
    ctx.check(P + "the_parent_is_current_again_and_keeps_its_own_status", isinstance(top, SObj) and I.truth(W.m) is top.fields["_success"], CL)


def s_abandon_top_level(ctx):
    """abandon / merge outside any alternative (depth 1) are refused, the state is untouched"""
    I = Interp(ctx)
    W = World(ctx, I)
    ctx.assume(W.D == 1)
    for name in ("abandon_current_match", "merge_current_match"):
        try:
            W.call(name)
            ctx.check(f"C06.basics.{name}.any_depth.refused_outside_an_alternative", False, CL)
        except PyRaise as e:
            ctx.check(f"C06.basics.{name}.any_depth.refused_outside_an_alternative", isinstance(e.exc, ValueError), CL)
        ctx.check(f"C06.basics.{name}.any_depth.refusal_leaves_the_stack", W.m.fields["_partial_matches"].len == 1, CL)


def s_merge(ctx):
    """merge_current_match on a stack of depth D >= 2 whose two top partial matches have tables of any size: for ONE arbitrary key of each
    table, bound afterwards iff bound in the parent or in the alternative, with the alternative's value when it has one; matched nodes of
    the parent are followed by the alternative's; the stack shrinks by one; everything below the parent is untouched."""
    I = Interp(ctx)
    W = World(ctx, I, depth_at_least=2)
    D0 = W.D
    cur = W.match_at(z3.simplify(D0 - 1))
    par = W.match_at(z3.simplify(D0 - 2))
    if cur is par:
        raise AssertionError("distinct positions must be distinct partial matches")
    keys = {"_bindings": z3.String("some_var"), "_value_bindings": ctx.int("some_value_pattern"), "_node_bindings": ctx.int("some_node_pattern")}
    pre = {nm: (par.fields[nm].has, par.fields[nm].val, cur.fields[nm].has, cur.fields[nm].val) for nm in W.tabs}
    np_, nc = par.fields["_matched_nodes"].len, cur.fields["_matched_nodes"].len
    cur_ok = cur.fields["_success"]
    par_ok = par.fields["_success"]
    P = "C06.basics.merge_current_match.any_depth."
    try:
        W.call("merge_current_match")
    except PyRaise as e:
        # merging is defined for a successful alternative under a successful parent only
        ctx.check(P + "raises_only_if_the_alternative_or_the_parent_has_failed", not (cur_ok and par_ok), CL)
        return
    ctx.cover("merge.any_depth.merged")
    ctx.check(P + "a_failed_alternative_is_never_merged", cur_ok is True, CL)
    st = W.m.fields["_partial_matches"]
    ctx.check(P + "pops_the_alternative", st.len == D0 - 1, CL)
    ctx.check(P + "the_parent_is_the_current_match", st.at(z3.simplify(st.len - 1)) is par, CL)
    for nm, label in (("_bindings", "variable_bindings"), ("_value_bindings", "value_bindings"), ("_node_bindings", "node_bindings")):
        k = keys[nm]
        ph, pv, ch, cv = pre[nm]
        now = par.fields[nm]
        ctx.check(P + f"keeps_{label}.bound_iff_bound_in_either_part",
                  z3.Select(now.has, k) == z3.Or(z3.Select(ph, k), z3.Select(ch, k)),
                  CL_BIND if nm != "_node_bindings" else "C06: node-level checks look the matched node up by its node pattern after the alternative is merged")
        ctx.check(P + f"keeps_{label}.value_is_the_alternatives_or_else_the_parents",
                  z3.Implies(z3.Select(now.has, k), z3.Select(now.val, k) == z3.If(z3.Select(ch, k), z3.Select(cv, k), z3.Select(pv, k))), CL_BIND)
    nodes = par.fields["_matched_nodes"]
    ctx.check(P + "keeps_matched_nodes.count", nodes.len == np_ + nc, CL_BIND)
    j0 = ctx.int("j0")
    ctx.assume(z3.And(j0 >= 0, j0 < np_ + nc))
    # order: matching proceeds from the output backwards, so the list is in reverse topological order and an alternative (matched after its
    # parent node) comes after it; `as_function` extraction (C07) relies on that order
    ctx.check(P + "keeps_matched_nodes.parents_then_alternatives_in_order",
              term(nodes.at(j0)) == z3.If(j0 < np_, W.matched(D0 - 2, j0), W.matched(D0 - 1, j0 - np_)), CL_BIND)
    if ctx.branch(W.p0 < D0 - 2):
        below = W.match_at(W.p0)
        ctx.check(P + "partial_matches_below_the_parent_are_untouched",
                  z3.And(*[z3.And(below.fields[nm].has == W.tabs[nm][0](W.p0), below.fields[nm].val == W.tabs[nm][1](W.p0)) for nm in W.tabs]), CL)


_FNS_BIND = [(BREL, "MatchResult.bind"), (BREL, "MatchResult.bind_value"), (BREL, "PartialMatchResult.fail")]
_ASSUME = ["loop invariant stated for one arbitrary (Skolem) stack position; termination not proved",
           "bound values / nodes / pattern objects are identified by integers: `==` on ir.Value / ir.Node is identity (onnx_ir defines no __eq__)"]
SCENARIOS = [
    Scenario("C06.basics.bind[any depth]", s_bind, [(BREL, "MatchResult.bind"), (BREL, "PartialMatchResult.fail")], assumptions=_ASSUME),
    Scenario("C06.basics.bind_value[any depth]", s_bind_value, _FNS_BIND, assumptions=_ASSUME),
    Scenario("C06.basics.bind_value.named[any depth]", s_bind_value_named, _FNS_BIND, assumptions=_ASSUME),
    Scenario("C06.basics.lookup_node[any depth]", s_lookup_node, [(BREL, "MatchResult.lookup_node")], assumptions=_ASSUME),
    Scenario("C06.basics.bind_node[any depth]", s_bind_node, [(BREL, "MatchResult.bind_node"), (BREL, "MatchResult.add_node"), (BREL, "PartialMatchResult.add_node")],
             assumptions=_ASSUME[1:]),
    Scenario("C06.basics.enter_abandon[any depth]", s_enter_abandon,
             [(BREL, "MatchResult.enter_new_match"), (BREL, "MatchResult.abandon_current_match"), (BREL, "PartialMatchResult.__init__"), (BREL, "MatchResult.fail")],
             assumptions=_ASSUME[1:]),
    Scenario("C06.basics.abandon_merge.top_level", s_abandon_top_level, [(BREL, "MatchResult.abandon_current_match"), (BREL, "MatchResult.merge_current_match")]),
    Scenario("C06.basics.merge[any depth]", s_merge, [(BREL, "MatchResult.merge_current_match"), (BREL, "PartialMatchResult.merge")], assumptions=_ASSUME[1:]),
]


# ------------------------------------------------------------------ Pattern.match: node-level / value-level checks and the condition function ---

RREL = "onnxscript/rewriter/_rewrite_rule.py"
CL_CHECK = ("C06: 'a match is reported if and only if the subgraph ending at that node is an instance of the pattern under its documented meaning' - "
            "node-level and value-level _check functions and the rule's condition function are part of that meaning: a match is reported only if "
            "every one of them accepts")


def s_pattern_match(ctx):
    """Pattern.match for ANY number of pattern inputs, bound node patterns and bound value patterns (three loops, each with an inductive
    invariant at one arbitrary Skolem position).  Every check function answers in one of the five documented ways (True / False / None /
    falsy MatchResult / raises MatchFailureError), chosen by an uninterpreted function of its position."""
    from onnxscript.rewriter import _basics, _rewrite_rule as rr, _pattern_ir
    import onnx_ir as ir
    from pyvc.values import SBool
    I = Interp(ctx)
    NONE = z3.IntVal(-1)
    un = lambda v: NONE if v is None else term(v)
    A = z3.ArraySort
    has0, val0 = z3.Const("bindings_has", A(S_, z3.BoolSort())), z3.Const("bindings_val", A(S_, I_))
    pm = SObj(_basics.PartialMatchResult, "top")
    bmap = SMap(has0, val0, mk=SInt, un=un, name="_bindings")
    N, V, M = ctx.int("bound_node_patterns"), ctx.int("bound_value_patterns"), ctx.int("pattern_inputs")
    ctx.assume(z3.And(N >= 0, V >= 0, M >= 0))
    j0, q0, i0 = ctx.int("j0"), ctx.int("q0"), ctx.int("i0")
    ctx.assume(z3.And(j0 >= 0, j0 < N, q0 >= 0, q0 < V, i0 >= 0, i0 < M))
    x0 = z3.String("some_variable")
    ctx.witness.update(N=N, V=V, M=M, j0=j0, q0=q0, i0=i0)
    has_check = {"n": z3.Function("node_pattern_has_check", I_, z3.BoolSort()), "v": z3.Function("value_pattern_has_check", I_, z3.BoolSort())}
    answer = {"n": z3.Function("node_check_answer", I_, I_), "v": z3.Function("value_check_answer", I_, I_)}
    cond_answer = ctx.int("condition_answer")
    named = z3.Function("input_is_named", I_, z3.BoolSort())
    name_of = z3.Function("input_name", I_, S_)
    calls = {"n": [], "v": [], "cond": []}
    wrong_arg = []
    ctxobj = []

    def respond(a):
        """the documented ways a check / condition function can answer"""
        if ctx.branch(a == 0):
            return True
        if ctx.branch(a == 1):
            return False
        if ctx.branch(a == 2):
            return None
        if ctx.branch(a == 3):
            r = I.instantiate(_basics.MatchResult, [], {})
            I.call(I.getattr(r, "fail"), ["because"])
            return r
        raise PyRaise(_basics.MatchFailureError("because"))

    def mk_pair(kind, j):
        pat = SObj(_pattern_ir.NodePattern if kind == "n" else _pattern_ir.ValuePattern, "pattern_" + kind)
        obj = SObj(ir.Node if kind == "n" else ir.Value, "bound_" + kind)
        if ctx.branch(has_check[kind](j)):
            def check_method(*a, **k):
                raise AssertionError

            def model(interp, *a, **k):
                calls[kind].append(j)
                if len(a) != 2 or a[1] is not obj or k or (ctxobj and a[0] is not ctxobj[0]):
                    wrong_arg.append((kind, a))
                if not ctxobj:
                    ctxobj.append(a[0])
                return respond(answer[kind](j))
            I.models[check_method] = model
            pat.fields["check_method"] = check_method
        else:
            pat.fields["check_method"] = None
        return (pat, obj)

    class Items:
        """a binding table as Pattern.match uses it: `.items()` only"""

        def __init__(self, kind, n):
            self.seq = SSeq(n, lambda j: mk_pair(kind, z3.simplify(j)), name=kind + "_bindings.items()")

        def items(self):
            return self.seq
    Items.items._pyvc_native = True
    pm.fields.update(_success=True, _bindings=bmap, _node_bindings=Items("n", N), _value_bindings=Items("v", V), _matched_nodes=[], _outputs=[],
                     _reason="", _failure_nodes_and_values=[])
    match = SObj(_basics.MatchResult, "match")
    match.fields["_partial_matches"] = [pm]
    matched = ctx.choose(2, "the matcher reports a match") == 0
    if not matched:
        pm.fields["_success"] = False

    def m_match(*a, **k):
        raise AssertionError
    matcher_calls = []
    I.models[m_match] = lambda interp, *a, **k: (matcher_calls.append((a, k)) or match)
    matcher = SObj(object, "matcher")
    matcher.fields["match"] = m_match

    def inp(i):
        v = SObj(_pattern_ir.Var, "input")
        v.fields["name"] = SStr(name_of(i)) if ctx.branch(named(i)) else None
        return v
    tp = SObj(_pattern_ir.GraphPattern, "target_pattern")
    tp.fields["inputs"] = SSeq(M, lambda i: inp(z3.simplify(i)), name="inputs")

    def condition(*a, **k):
        raise AssertionError

    def m_condition(interp, *a, **k):
        calls["cond"].append((a, dict(k), (bmap.has, bmap.val), (len(calls["n"]), len(calls["v"]))))
        return respond(cond_answer)
    I.models[condition] = m_condition
    pat = SObj(rr.Pattern, "pattern")
    pat.fields.update(_matcher=matcher, _target_pattern=tp, _condition_function=condition, _verbose=0, name="p")
    removable = ctx.choose(2, "check_nodes_are_removable") == 0
    tracer = None
    logged = []
    if ctx.choose(2, "tracer") == 1:
        tracer = SObj(_basics.MatchingTracer, "tracer")

        def log(*a, **k):
            raise AssertionError
        I.models[log] = lambda interp, *a, **k: logged.append(a[-1])
        tracer.fields["log"] = log

    def inv_inputs(interp, env, k, pre, it):
        has, val = bmap.has, bmap.val
        return [("a_passed_named_input_is_bound", z3.Implies(z3.And(k > i0, named(i0)), z3.Select(has, name_of(i0)))),
                ("bindings_found_by_the_matcher_are_kept", z3.Implies(z3.Select(has0, x0), z3.And(z3.Select(has, x0), z3.Select(val, x0) == z3.Select(val0, x0)))),
                ("an_added_binding_is_None", z3.Implies(z3.And(z3.Select(has, x0), z3.Not(z3.Select(has0, x0))), z3.Select(val, x0) == NONE)),
                ("the_match_is_still_successful", z3.BoolVal(pm.fields["_success"] is True))]

    def havoc_bindings(interp, env):
        bmap.has = z3.Const(ctx.fresh("has"), A(S_, z3.BoolSort()))
        bmap.val = z3.Const(ctx.fresh("val"), A(S_, I_))

    def inv_checks(kind, p):
        def inv(interp, env, k, pre, it):
            return [("a_passed_check_accepted", z3.Implies(z3.And(k > p, has_check[kind](p)), answer[kind](p) == 0)),
                    ("the_match_is_still_successful", z3.BoolVal(pm.fields["_success"] is True))]
        return inv
    I.loops[("Pattern.match", 0)] = LoopSpec({}, inv_inputs, heap_havoc=havoc_bindings)
    I.loops[("Pattern.match", 1)] = LoopSpec({}, inv_checks("n", j0))
    I.loops[("Pattern.match", 2)] = LoopSpec({}, inv_checks("v", q0))
    model, graph, node = SObj(ir.Model, "model"), SObj(ir.Graph, "graph"), SObj(ir.Node, "node")
    P = "C06.pattern.match."
    try:
        r = I.call(I.getattr(pat, "match"), [model, graph, node], {"check_nodes_are_removable": removable, "tracer": tracer})
    except PyRaise as e:
        ctx.check(P + "never_raises_when_checks_answer_in_a_documented_way", False, CL_CHECK)
        return
    ctx.check(P + "matcher_asked_for_this_node_and_told_whether_nodes_will_be_removed",
              len(matcher_calls) >= 1 and all(c[0][:3] == (model, graph, node) and c[1].get("remove_nodes") is removable for c in matcher_calls),
              "C06/C07: intermediate values may be used outside the match only if the rule keeps the nodes")
    ctx.check(P + "every_check_receives_the_context_and_the_node_or_value_bound_to_its_pattern", not wrong_arg, CL_CHECK)
    if not matched:
        ctx.cover("pattern.match.no_match")
        ctx.check(P + "no_match_is_reported_as_the_failed_match_and_no_check_runs", r is match and not I.truth(r) and not calls["n"] and not calls["v"] and not calls["cond"], CL_CHECK)
        return
    accepted_all = z3.And(z3.Implies(has_check["n"](j0), answer["n"](j0) == 0), z3.Implies(has_check["v"](q0), answer["v"](q0) == 0), cond_answer == 0)
    if r is match:
        ctx.cover("pattern.match.reported")
        ctx.check(P + "reported_only_if_every_node_check_every_value_check_and_the_condition_accept", accepted_all, CL_CHECK)
        ctx.check(P + "a_reported_match_is_successful", I.truth(match) is True, CL_CHECK)
        ok = len(calls["cond"]) == 1
        ctx.check(P + "condition_function_called_exactly_once_for_a_reported_match", ok, CL_CHECK)
        if ok:
            a, k, (h, v), _n = calls["cond"][0]
            ctx.check(P + "condition_function_receives_the_context_and_the_bindings",
                      len(a) == 1 and isinstance(a[0], _basics.MatchContext) or (len(a) == 1 and isinstance(a[0], SObj) and a[0].pycls is _basics.MatchContext), CL_CHECK)
            ok2 = set(k) == {"__pyvc_starkw__"} and k["__pyvc_starkw__"] is bmap
            ctx.check(P + "condition_function_receives_exactly_the_bindings_as_keywords", ok2, CL_CHECK)
            ctx.check(P + "every_named_pattern_input_is_a_keyword_of_the_condition_function", z3.Implies(named(i0), z3.Select(h, name_of(i0))),
                      "C06: 'The bindings returned are exactly the instance's values' - an input the match did not reach (optional, absent) is bound to None")
            ctx.check(P + "bindings_of_the_matcher_reach_the_condition_function_unchanged",
                      z3.Implies(z3.Select(has0, x0), z3.And(z3.Select(h, x0), z3.Select(v, x0) == z3.Select(val0, x0))), CL_BIND)
            ctx.check(P + "an_unmatched_input_is_bound_to_None", z3.Implies(z3.And(z3.Select(h, x0), z3.Not(z3.Select(has0, x0))), z3.Select(v, x0) == NONE), CL_BIND)
    else:
        ctx.cover("pattern.match.vetoed")
        ctx.check(P + "a_vetoed_match_returns_None", r is None, CL_CHECK)
        a, b = z3.Ints("a b")
        veto = z3.Or(z3.Exists([a], z3.And(a >= 0, a < N, has_check["n"](a), answer["n"](a) != 0)),
                     z3.Exists([b], z3.And(b >= 0, b < V, has_check["v"](b), answer["v"](b) != 0)), cond_answer != 0)
        ctx.check(P + "vetoed_only_if_some_check_or_the_condition_rejects", veto, CL_CHECK)
        ctx.check(P + "a_vetoed_match_is_marked_failed", I.truth(match) is False, CL_CHECK)


SCENARIOS.append(Scenario("C06.pattern.match[any number of checks]", s_pattern_match,
                          [(RREL, "Pattern.match"), (RREL, "Pattern.match.fail"), (RREL, "Pattern.match.wrap_try"), (RREL, "Pattern.match.wrap_try.wrapped"),
                           (BREL, "MatchResult.bind"), (BREL, "MatchResult.fail"), (BREL, "MatchContext.__init__")],
                          trusted=["check functions answer in one of the documented ways: True / False / None / a falsy MatchResult / raise MatchFailureError"],
                          assumptions=["three loop invariants, each at one arbitrary (Skolem) position; termination not proved"]))


# ------------------------------------------------------------------ commute(): a variable used twice stays one variable ---

PREL = "onnxscript/rewriter/_pattern_ir.py"
ANON_TWICE = '''
import sys
import onnx_ir as ir
from onnxscript.rewriter import pattern as orp, _pattern_ir as P
def build(swapped, same):
    a, b, c = (ir.Value(name=n, type=ir.TensorType(ir.DataType.FLOAT), shape=ir.Shape([2])) for n in "abc")
    s = ir.node("Sub", [a, a if same else b])
    add = ir.node("Add", [c, s.outputs[0]] if swapped else [s.outputs[0], c]); add.outputs[0].name = "y"
    g = ir.Graph([a, b, c], [add.outputs[0]], nodes=[s, add], opset_imports={"": 18}, name="g")
    return ir.Model(g, ir_version=9)
bad = 0
for kind in ("anonymous Var", "named Var", "anonymous ValuePattern with a check"):
    for commute in (False, True):
        for swapped in (False, True):
            for same in (False, True):
                v = P.Var(None) if kind == "anonymous Var" else (P.Var("v") if kind == "named Var" else P.ValuePattern(None, check=lambda context, value: True))
                def pat(op, x):
                    return op.Add(op.Sub(v, v), x)
                def rep(op, x, **_): return op.Identity(x)
                n = orp.RewriteRuleSet([orp.RewriteRule(pat, rep)], commute=commute).apply_to_model(build(swapped, same))
                want = 1 if same and (commute or not swapped) else 0
                if n != want:
                    print(f"pattern Add(Sub(v, v), x) with v an {kind}, commute={commute}, against Add({'c, Sub' if swapped else 'Sub'}(a, {'a' if same else 'b'}){'' if swapped else ', c'}): applied {n} time(s), expected {want}")
                    bad += 1
sys.exit(1 if bad else 0)
'''


def s_commute_repeated_variable(_ctx):
    """commute() clones the pattern; a value pattern that occurs TWICE in the pattern (a repeated variable) must stay ONE value pattern in every
    clone — also an unnamed one, which is bound by identity — so that 'a variable used twice binds one value' holds for the commuted variants."""
    import subprocess
    import sys
    import tempfile
    from contracts.c17_opsets import Agg
    from onnxscript.rewriter import _pattern_ir as P
    agg = Agg()
    for kind, mk in (("Var(None)", lambda: P.Var(None)), ("Var('v')", lambda: P.Var("v")), ("ValuePattern(None, check=f)", lambda: P.ValuePattern(None, check=lambda c, v: True))):
        v = mk()
        node = P.NodePattern("", "Sub", [v, v], {}, ["o"], allow_other_attributes=True, allow_other_inputs=False)
        copy = node.clone({}, False)
        same = copy.inputs[0] is copy.inputs[1]
        by_name = copy.inputs[0].name is not None and copy.inputs[0].name == copy.inputs[1].name
        agg.ob("C06.pattern_ir.clone.a_value_pattern_used_twice_is_one_value_pattern_in_the_clone", same or by_name,
               f"{kind}: the two inputs of the clone are {'the same object' if same else 'different objects'}" + ("" if same or by_name else " and have no name to be bound by"),
               CL_BIND, case=kind)
        agg.ob("C06.pattern_ir.clone.keeps_check_and_optionality", copy.inputs[0].check_method is v.check_method and copy.inputs[0].can_match_none == v.can_match_none,
               kind, CL_BIND, case=kind)
    with tempfile.NamedTemporaryFile("w", suffix=".py", delete=False) as f:
        f.write(ANON_TWICE)
    p = subprocess.run([sys.executable, f.name], capture_output=True, text=True, timeout=600)
    agg.ob("C06.matcher.commute.a_variable_used_twice_binds_one_value_in_every_commuted_variant", p.returncode == 0, (p.stdout + p.stderr)[-600:], CL_BIND)
    return {"obligations": agg.obs, "paths": 4, "covered": ["repeated_variable_kinds=3"], "notes": [], "functions": []}


SCENARIOS.append(Scenario("C06.pattern_ir.commute.repeated_variable", s_commute_repeated_variable,
                          [(PREL, "Var.clone"), (PREL, "ValuePattern.clone"), (PREL, "NodePattern.clone"), (PREL, "GraphPattern.commute")], kind="evaluation"))


# ------------------------------------------------------------------ _get_output_values: the outputs reported for a match ---

MREL = "onnxscript/rewriter/_matcher.py"


def s_get_output_values(ctx):
    """SimplePatternMatcher._get_output_values for a pattern with ANY number of outputs: output j of the match is the value bound to output
    pattern j — by name when the pattern value is named, by identity otherwise — in the pattern's order; if some output pattern is unbound
    the match fails (None).  Loop invariant over the list being built, at one Skolem position."""
    from onnxscript.rewriter import _matcher, _basics, _pattern_ir
    I = Interp(ctx)
    n = ctx.int("pattern_outputs")
    ctx.assume(n >= 0)
    j0 = ctx.int("j0")
    ctx.assume(z3.And(j0 >= 0, j0 < n))
    ctx.witness.update(n=n, j0=j0)
    named = z3.Function("output_pattern_is_named", I_, z3.BoolSort())
    name_of = z3.Function("output_pattern_name", I_, S_)
    A = z3.ArraySort
    bhas, bval = z3.Const("bindings_has", A(S_, z3.BoolSort())), z3.Const("bindings_val", A(S_, I_))
    vhas, vval = z3.Const("value_bindings_has", A(I_, z3.BoolSort())), z3.Const("value_bindings_val", A(I_, I_))
    bound = lambda j: z3.If(named(j), z3.Select(bhas, name_of(j)), z3.Select(vhas, j))        # noqa: E731
    value = lambda j: z3.If(named(j), z3.Select(bval, name_of(j)), z3.Select(vval, j))        # noqa: E731

    def outp(j):
        p = SObj(_pattern_ir.ValuePattern, "output_pattern")
        p.pid = j                                   # an unnamed output pattern is identified by its position (patterns are distinct objects)
        p.fields["name"] = SStr(name_of(j)) if ctx.branch(named(j)) else None
        return p
    pat = SObj(_pattern_ir.GraphPattern, "pattern")
    pat.fields["outputs"] = SSeq(n, lambda j: outp(z3.simplify(j)), name="pattern.outputs")
    pm = SObj(_basics.PartialMatchResult, "top")
    pm.fields.update(_success=True, _bindings=SMap(bhas, bval, mk=SInt, un=term, name="bindings"),
                     _value_bindings=SMap(vhas, vval, mk=SInt, un=term, name="value_bindings", keyfn=World.pat_key),
                     _node_bindings={}, _matched_nodes=[], _outputs=[], _reason="", _failure_nodes_and_values=[])
    match = SObj(_basics.MatchResult, "match")
    match.fields["_partial_matches"] = [pm]
    self = SObj(_matcher.SimplePatternMatcher, "matcher")
    self.fields.update(pattern=pat, _match=match)
    desc = {}

    def mk_vals(interp):
        L = ctx.int("len_output_values")
        ctx.assume(L >= 0)
        desc["v"] = z3.Function(ctx.fresh("out_val"), I_, I_)
        s = SSeq(L, lambda j: SInt(desc["v"](j)), name="output_values")
        s.mutable = True
        return s

    def mk_unbound(interp):
        L = ctx.int("len_unbound")
        ctx.assume(L >= 0)
        s = SSeq(L, lambda j: SStr(z3.String(ctx.fresh("unbound_name"))), name="unbound_values")
        s.mutable = True
        return s

    def entry(lst, j):
        v = desc["v"](j)
        for old_len, item in getattr(lst, "appended", []):
            v = z3.If(j == old_len, term(item), v)
        return v
    q = z3.Int("q")

    def inv(interp, env, k, pre, it):
        vals, unb = env.lookup("output_values"), env.lookup("unbound_values")
        if not isinstance(vals, SSeq):
            return [("nothing_collected_before_the_loop", z3.BoolVal(len(vals) == 0 and len(unb) == 0))]
        return [("lengths_account_for_every_visited_output", z3.And(vals.len >= 0, unb.len >= 0, vals.len + unb.len == k)),
                ("while_nothing_is_unbound_entry_j_is_the_value_bound_to_output_pattern_j",
                 z3.Implies(unb.len == 0, z3.ForAll([q], z3.Implies(z3.And(q >= 0, q < k), z3.And(bound(q), entry(vals, q) == value(q)))))),
                ("something_is_unbound_only_if_some_visited_output_pattern_is_unbound",
                 z3.Implies(unb.len > 0, z3.Exists([q], z3.And(q >= 0, q < k, z3.Not(bound(q))))))]
    I.loops[("SimplePatternMatcher._get_output_values", 0)] = LoopSpec({"output_values": mk_vals, "unbound_values": mk_unbound}, inv)
    P = "C06.matcher.get_output_values.any_number."
    try:
        r = I.call(I.getattr(self, "_get_output_values"), [])
    except PyRaise:
        ctx.check(P + "never_raises", False, CL_BIND)
        return
    if r is None:
        ctx.cover("get_output_values.unbound")
        ctx.check(P + "None_only_if_some_output_pattern_is_unbound", z3.Exists([q], z3.And(q >= 0, q < n, z3.Not(bound(q)))), CL_BIND)
        ctx.check(P + "an_unbound_output_fails_the_match", I.truth(match) is False, CL_BIND)
        return
    ctx.cover("get_output_values.all_bound")
    ok = isinstance(r, SSeq)
    ctx.check(P + "returns_a_list", ok, CL_BIND)
    if not ok:
        return
    ctx.check(P + "one_value_per_output_pattern", r.len == n, CL_BIND)
    ctx.check(P + "output_j_is_the_value_bound_to_output_pattern_j", z3.And(bound(j0), entry(r, j0) == value(j0)),
              "C06: 'The bindings returned are exactly the instance's values' / C07: match.outputs[j] is replaced by the j-th replacement output")
    ctx.check(P + "the_match_stays_successful", I.truth(match) is True, CL_BIND)


SCENARIOS.append(Scenario("C06.matcher.get_output_values[any number of outputs]", s_get_output_values, [(MREL, "SimplePatternMatcher._get_output_values")],
                          assumptions=["loop invariant with a universally quantified clause over the visited positions; termination not proved"]))


# ------------------------------------------------------------------ NodePattern.matches for ANY number of attribute patterns / node attributes ---

def s_node_pattern_matches_anynumber(ctx):
    """NodePattern.matches with ANY number of attribute patterns and ANY number of node attributes (two loops, each with an invariant at one
    Skolem position): the node-level match succeeds iff operator and domain match, EVERY attribute pattern is satisfied by the node (present
    and accepted, or absent and allowed to be absent; a named one bound consistently) and — unless other attributes are allowed — every attribute
    of the node is named by the pattern."""
    import onnx_ir as ir
    from onnxscript.rewriter import _pattern_ir, _basics
    I = Interp(ctx)
    NP, NA = ctx.int("attribute_patterns"), ctx.int("node_attributes")
    ctx.assume(z3.And(NP >= 0, NA >= 0))
    p0, a0 = ctx.int("p0"), ctx.int("a0")
    ctx.assume(z3.And(p0 >= 0, p0 < NP, a0 >= 0, a0 < NA))
    ctx.witness.update(NP=NP, NA=NA, p0=p0, a0=a0)
    pname = z3.Function("pattern_attribute_name", I_, S_)
    aname = z3.Function("node_attribute_name", I_, S_)
    q = z3.Int("q")
    ctx.assume(z3.ForAll([q], z3.Implies(z3.And(q >= 0, q < NP, q != p0), pname(q) != pname(p0))))    # dict keys are distinct
    node_has = z3.Const("node_has_attribute", z3.ArraySort(S_, z3.BoolSort()))
    node_val = z3.Const("node_attribute_value", z3.ArraySort(S_, I_))
    ctx.assume(z3.ForAll([q], z3.Implies(z3.And(q >= 0, q < NA), z3.Select(node_has, aname(q)))))
    in_pattern = z3.Const("is_a_pattern_attribute_name", z3.ArraySort(S_, z3.BoolSort()))
    ctx.assume(z3.ForAll([q], z3.Implies(z3.And(q >= 0, q < NP), z3.Select(in_pattern, pname(q)))))
    accepts = z3.Function("attribute_pattern_accepts_the_value", I_, z3.BoolSort())
    can_none = z3.Function("attribute_pattern_can_match_none", I_, z3.BoolSort())
    is_var = z3.Function("attribute_pattern_is_a_variable", I_, z3.BoolSort())
    var_name = z3.Function("attribute_variable_name", I_, S_)
    bind_ok = z3.Function("binding_the_attribute_variable_succeeds", I_, z3.BoolSort())
    op_ok, dom_ok = ctx.bool("op_matches"), ctx.bool("domain_matches")
    allow_other = ctx.choose(2, "allow_other_attributes") == 1

    def strpat(t):
        o = SObj(object, "strpattern")

        def f(s):
            raise AssertionError
        I.models[f] = lambda interp, s, t=t: SBool(t)
        o.fields["matches"] = f
        return o
    from pyvc.values import SBool
    bound_calls = []

    def mk_pattern(j):
        ap = SObj(_pattern_ir.AttrPattern, "attrpattern")

        def f(v):
            raise AssertionError

        def m(interp, v, j=j):
            # the pattern is asked about the value the NODE holds under this pattern's name
            if not (isinstance(v, SInt) and interp.ctx.branch(v.t == z3.Select(node_val, pname(j)))):
                bound_calls.append(("wrong value", j))
            return SBool(accepts(j))
        I.models[f] = m
        ap.fields.update(matches=f, can_match_none=ctx.branch(can_none(j)), name=(SStr(var_name(j)) if ctx.branch(is_var(j)) else None))
        ap.idx = j
        return ap

    class PatAttrs:
        def __init__(self):
            self.seq = SSeq(NP, lambda j: (SStr(pname(z3.simplify(j))), mk_pattern(z3.simplify(j))), name="self.attributes.items()")

        def items(self):
            return self.seq

        def __contains__(self, name):
            return SBool(z3.Select(in_pattern, term(name)))
    PatAttrs.items._pyvc_native = True
    PatAttrs.__contains__._pyvc_native = True

    class NodeAttrs:
        def get(self, name, default=None):
            t = term(name)
            if ctx.branch(z3.Select(node_has, t)):
                return SInt(z3.Select(node_val, t))
            return default

        def __iter__(self):
            raise AssertionError
    NodeAttrs.get._pyvc_native = True
    pattrs, nattrs = PatAttrs(), NodeAttrs()
    orig_contains = I.contains

    def contains(container, item):
        if container is pattrs:
            return SBool(z3.Select(in_pattern, term(item)))
        return orig_contains(container, item)
    I.contains = contains
    names_seq = SSeq(NA, lambda j: SStr(aname(z3.simplify(j))), name="node.attributes")
    np_ = SObj(_pattern_ir.NodePattern, "nodepattern")
    np_.fields.update(op=strpat(op_ok), domain=strpat(dom_ok), attributes=pattrs, allow_other_attributes=allow_other)
    node = SObj(ir.Node, "node")
    node.fields.update(op_type="Op", domain="", attributes=nattrs)
    # `for name in node.attributes`: iteration over the stand-in yields the symbolic sequence of the node's attribute names
    match = SObj(_basics.MatchResult, "match")
    state = {"failed": False, "binds": []}

    def m_fail(*a, **k):
        raise AssertionError

    def mm_fail(interp, *a, **k):
        state["failed"] = True
        return match
    I.models[m_fail] = mm_fail

    def m_bind(*a):
        raise AssertionError

    def mm_bind(interp, name, value):
        j = None
        state["binds"].append((name, value))
        # which pattern asks: identified through the variable name handed over
        ok = ctx.branch(z3.And(term(name) == var_name(state["cur"]), bind_ok(state["cur"])))
        if not ok:
            state["failed"] = True
        return ok
    I.models[m_bind] = mm_bind
    match.fields.update(fail=m_fail, bind=m_bind)

    def truth_of_match():
        return not state["failed"]

    def sat(p):
        present = z3.Select(node_has, pname(p))
        return z3.And(z3.If(present, accepts(p), can_none(p)), z3.Implies(is_var(p), bind_ok(p)))

    def inv_patterns(interp, env, k, pre, it):
        return [("a_passed_attribute_pattern_is_satisfied", z3.Implies(k > p0, sat(p0))), ("no_failure_recorded_so_far", z3.BoolVal(not state["failed"]))]

    def inv_attrs(interp, env, k, pre, it):
        return [("a_passed_node_attribute_is_named_by_the_pattern", z3.Implies(k > a0, z3.Select(in_pattern, aname(a0)))),
                ("no_failure_recorded_so_far", z3.BoolVal(not state["failed"]))]
    I.loops[("NodePattern.matches", 0)] = LoopSpec({}, inv_patterns)
    I.loops[("NodePattern.matches", 1)] = LoopSpec({}, inv_attrs)
    # iteration hooks: the current pattern index for bind, and iteration over node.attributes
    orig_assign = I.assign_target

    def assign_target(target, value, env):
        if isinstance(value, tuple) and len(value) == 2 and isinstance(value[1], SObj) and hasattr(value[1], "idx"):
            state["cur"] = value[1].idx
        return orig_assign(target, value, env)
    I.assign_target = assign_target
    P = "C06.pattern_ir.node_pattern.any_number."
    orig_eval_for = I.x_For

    def x_For(node_, env):
        it = I.eval(node_.iter, env)
        if it is nattrs:
            import ast as _ast
            # rewrite the iterable to the symbolic name sequence
            env.assign("__node_attribute_names__", names_seq)
            new = _ast.For(target=node_.target, iter=_ast.Name(id="__node_attribute_names__", ctx=_ast.Load()), body=node_.body, orelse=node_.orelse)
            _ast.copy_location(new, node_)
            _ast.fix_missing_locations(new)
            I._loop_ord[id(new)] = I._static_loop_key(node_)[1]
            return orig_eval_for(new, env)
        return orig_eval_for(node_, env)
    I.x_For = x_For
    try:
        r = I.call(I.getattr(np_, "matches"), [node, match])
    except PyRaise:
        ctx.check(P + "never_raises", False, CL)
        return
    got = (r is match) and not state["failed"]
    ctx.check(P + "attribute_patterns_are_asked_about_the_node_value_of_their_own_name", not [b for b in bound_calls if b[0] == "wrong value"], CL)
    if got:
        ctx.cover("node_pattern.any_number.matched")
        ctx.check(P + "matched_only_if_operator_and_domain_match", z3.And(op_ok, dom_ok), CL)
        ctx.check(P + "matched_only_if_every_attribute_pattern_is_satisfied", sat(p0), "C06: 'operator, domain and attributes agree ... optional or extra inputs and attributes'")
        if not allow_other:
            ctx.check(P + "matched_only_if_every_node_attribute_is_named_by_the_pattern", z3.Select(in_pattern, aname(a0)), CL)
    else:
        ctx.cover("node_pattern.any_number.failed")
        c1, c2 = z3.Ints("c1 c2")
        reason = z3.Or(z3.Not(op_ok), z3.Not(dom_ok), z3.Exists([c1], z3.And(c1 >= 0, c1 < NP, z3.Not(sat(c1)))),
                       z3.And(z3.BoolVal(not allow_other), z3.Exists([c2], z3.And(c2 >= 0, c2 < NA, z3.Not(z3.Select(in_pattern, aname(c2)))))))
        ctx.check(P + "fails_only_for_a_reason", reason, CL)


SCENARIOS.append(Scenario("C06.pattern_ir.node_pattern_matches[any number of attributes]", s_node_pattern_matches_anynumber, [(PREL, "NodePattern.matches")],
                          trusted=["AttrPattern.matches / MatchResult.bind answer arbitrarily (uninterpreted functions of the pattern's position): their own contracts are c06_state / c06_matcher"],
                          assumptions=["two loop invariants, each at one arbitrary (Skolem) position; termination not proved"]))


# ------------------------------------------------------------------ ReplacementPatternFunction.get_replacement ---

class Tok:
    def __init__(self, name):
        self.name = name

    def __repr__(self):
        return f"<{self.name}>"


def s_get_replacement(ctx):
    """get_replacement: the replacement function is called once with a fresh tape builder and exactly the bindings of the match; its answer is
    turned into a ReplacementSubgraph holding the match, the outputs IN ORDER (a single value becomes a one-element list), and the nodes /
    initializers / used opsets recorded by THAT builder; None / False / a falsy MatchResult / MatchFailureError mean 'no replacement' (the
    latter two fail the match with the reason); a truthy MatchResult is a programming error."""
    from onnxscript.rewriter import _basics, _rewrite_rule as rr
    from onnxscript.rewriter import _context
    I = Interp(ctx)
    kinds = ["one value", "a tuple of two values", "a list of three values", "None", "False", "a falsy MatchResult", "raises MatchFailureError", "a truthy MatchResult"]
    kind = kinds[ctx.choose(len(kinds), "the replacement function returns")]
    tapes = []

    def m_tape(interp, *a, **k):
        t = SObj(_context.TapeBuilder, "tape")
        t.fields.update(nodes=Tok(f"nodes{len(tapes)}"), initializers=Tok(f"inits{len(tapes)}"), used_opsets=Tok(f"opsets{len(tapes)}"))
        tapes.append(t)
        return t
    I.models[_context.TapeBuilder] = m_tape
    vals = [Tok("out0"), Tok("out1"), Tok("out2")]
    calls = []

    def fn(*a, **k):
        raise AssertionError

    def m_fn(interp, *a, **k):
        calls.append((a, dict(k)))
        if kind == "one value":
            return vals[0]
        if kind == "a tuple of two values":
            return (vals[0], vals[1])
        if kind == "a list of three values":
            return list(vals)
        if kind == "None":
            return None
        if kind == "False":
            return False
        if kind == "a falsy MatchResult":
            r = interp.instantiate(_basics.MatchResult, [], {})
            interp.call(interp.getattr(r, "fail"), ["because"])
            return r
        if kind == "raises MatchFailureError":
            raise PyRaise(_basics.MatchFailureError("because"))
        return interp.instantiate(_basics.MatchResult, [], {})
    I.models[fn] = m_fn
    rpf = SObj(rr.ReplacementPatternFunction, "replacement")
    rpf.fields["_function"] = fn
    match = I.instantiate(_basics.MatchResult, [], {})
    b1, b2 = Tok("bound_x"), Tok("bound_y")
    I.call(I.getattr(match, "bind"), ["x", b1])
    I.call(I.getattr(match, "bind"), ["y", b2])
    made = []

    def m_subgraph(interp, *a, **k):
        made.append((a, k))
        return ("subgraph", len(made))
    I.models[rr.ReplacementSubgraph] = m_subgraph
    P = "C07.get_replacement."
    CLR = "C07: 'the matched nodes are replaced by the nodes the replacement function builds, pattern output i by replacement output i'"
    try:
        r = I.call(I.getattr(rpf, "get_replacement"), [match])
    except PyRaise as e:
        ctx.check(P + "raises_only_for_a_truthy_MatchResult", kind == "a truthy MatchResult" and isinstance(e.exc, TypeError), CLR)
        return
    ctx.check(P + "a_truthy_MatchResult_is_refused", kind != "a truthy MatchResult", CLR)
    ok_call = len(calls) == 1 and len(tapes) == 1 and len(calls[0][0]) == 1 and calls[0][0][0] is tapes[0] and calls[0][1] == {"x": b1, "y": b2}
    ctx.check(P + "replacement_function_called_once_with_a_fresh_builder_and_exactly_the_bindings", ok_call, CLR)
    if kind in ("None", "False", "a falsy MatchResult", "raises MatchFailureError"):
        ctx.check(P + "no_replacement_when_the_function_declines", r is None and not made, CLR)
        if kind in ("a falsy MatchResult", "raises MatchFailureError"):
            ctx.check(P + "declining_with_a_reason_fails_the_match", I.truth(match) is False, CLR)
        return
    want = {"one value": [vals[0]], "a tuple of two values": [vals[0], vals[1]], "a list of three values": list(vals)}[kind]
    ok = r == ("subgraph", 1) and len(made) == 1
    ctx.check(P + "a_replacement_subgraph_is_returned", ok, CLR)
    if ok and ok_call:
        a, k = made[0]
        args = list(a) + [k.get(n) for n in ("match", "new_outputs", "new_nodes", "new_initializers", "used_opsets")][len(a):]
        ctx.check(P + "subgraph_holds_the_match_and_the_outputs_in_order", args[0] is match and list(args[1]) == want and all(x is y for x, y in zip(args[1], want)), CLR)
        ctx.check(P + "subgraph_holds_what_this_builder_recorded", args[2] is tapes[0].fields["nodes"] and args[3] is tapes[0].fields["initializers"] and args[4] is tapes[0].fields["used_opsets"], CLR)


RREL2 = "onnxscript/rewriter/_rewrite_rule.py"
SCENARIOS.append(Scenario("C07.get_replacement", s_get_replacement, [(RREL2, "ReplacementPatternFunction.get_replacement")], kind="bounded",
                          bound="eight kinds of answers of the replacement function; two bindings"))


def s_rule_set_init(ctx):
    """RewriteRuleSet.__init__ / RewriteRule.apply_to_model: the set holds the given rules in order — with commute=True every commuted variant
    of every rule, in order —, refuses an empty list, and schedules the removal of unused nodes iff SOME rule of the (expanded) set keeps the
    matched nodes; RewriteRule.apply_to_model is the one-rule set with the same commute flag and forwards verbose / tracer."""
    from onnxscript.rewriter import _rewrite_rule as rr
    I = Interp(ctx)
    n = ctx.choose(4, "number of rules")
    commute = ctx.choose(2, "commute") == 1
    rules, variants_of, keep = [], {}, {}
    for i in range(n):
        r = SObj(rr.RewriteRule, f"rule{i}")
        nv = 1 + ctx.choose(2, f"rule{i} has a commuted variant")
        vs = []
        for j in range(nv):
            v = r if j == 0 else SObj(rr.RewriteRule, f"rule{i}_variant{j}")
            k = ctx.choose(2, f"rule{i} keeps the matched nodes") == 1 if j == 0 else keep[id(r)]
            v.fields["remove_nodes"] = not k
            keep[id(v)] = k
            vs.append(v)

        def commute_fn():
            raise AssertionError
        I.models[commute_fn] = lambda interp, vs=vs: list(vs)
        r.fields["commute"] = commute_fn
        variants_of[id(r)] = vs
        rules.append(r)
    rs = SObj(rr.RewriteRuleSet, "ruleset")
    P = "C07.rule_set."
    CLS = "C07: 'each rule is tried on each node'; commute=True: 'the matches are exactly those of the pattern under swaps of the operands of commutative operators' (C06)"
    try:
        I.call(I.getattr(rs, "__init__"), [rules], {"commute": commute})
    except PyRaise as e:
        ctx.check(P + "refuses_only_an_empty_rule_list", n == 0 and isinstance(e.exc, ValueError), CLS)
        return
    ctx.check(P + "an_empty_rule_list_is_refused", n > 0, CLS)
    want = [v for r in rules for v in (variants_of[id(r)] if commute else [r])]
    got = list(rs.fields["rules"])
    ctx.check(P + "holds_the_rules_or_all_their_commuted_variants_in_order", len(got) == len(want) and all(a is b for a, b in zip(got, want)), CLS)
    ctx.check(P + "unused_nodes_are_removed_iff_some_rule_keeps_the_matched_nodes", rs.fields["remove_unused_nodes"] is any(keep[id(v)] for v in want),
              "C07: 'no dangling or duplicated values remain' - a rule that keeps the matched nodes leaves them for dead-code elimination")


SCENARIOS.append(Scenario("C07.rule_set.init", s_rule_set_init, [(RREL2, "RewriteRuleSet.__init__")], kind="bounded", bound="0-3 rules, each with or without one commuted variant"))
