"""C10 — opset version conversion.

Path contracts on the real version_converter code, exhaustive over the supported version range of the
property (source and target opset in 18..25) and over the behaviours of an adapter (no adapter / adapter
declines / adapter replaces the node / adapter raises VersionConverterError):

  _VersionConverter.visit_model / visit_graph_or_function / visit_node / replace_node
      on normal return the model and every function declare opset `target` ("ai.onnx" alias removed) and
      every default-domain node left in the graph carries version `target`;
      if conversion is refused (down-conversion) nothing was touched;
  _ConvertVersionPassRequiresInline.call   decision table native / fallback / no-op
  adapters dft_19_20, gridsample_19_20      attribute -> input, mode table, other attributes kept
  convert_version (ModelProto entry)        see contracts/c15_wrappers.py
"""
from __future__ import annotations

import z3

from pyvc.harness import Scenario
from pyvc.interp import Interp, PyRaise
from pyvc.values import SObj, Opaque

REL = "onnxscript/version_converter/_version_converter.py"
REL_INIT = "onnxscript/version_converter/__init__.py"
CL = "C10: 'the model declares opset v for the default domain consistently (model, functions and nodes)'"
CL_HALF = "C10: 'When a conversion is not supported the model is left as it was and still self-consistent - its declared opset matches its nodes - never half-converted'"


class GraphLike(list):
    """A graph or function: iterable over nodes, with an opset_imports table."""

    def __init__(self, nodes, opset_imports):
        super().__init__(nodes)
        self.opset_imports = opset_imports
        self._pos = 0

    def __iter__(self):
        # onnx_ir graphs are linked lists that may be mutated while iterated: when the current node is
        # replaced, iteration continues with the nodes inserted in its place
        self._pos = 0
        while self._pos < len(self):
            n = self[self._pos]
            self._pos += 1
            yield n

    def replace(self, old, new_nodes):
        i = [k for k, x in enumerate(self) if x is old][0]
        self[i:i + 1] = list(new_nodes)
        if i < self._pos:
            self._pos = i


def _vc():
    from onnxscript.version_converter import _version_converter
    return _version_converter


ADAPTED = {("DFT", 19), ("GridSample", 19), ("GroupNormalization", 20)}


def s_visit_model(ctx, s, t):
    import onnx_ir as ir
    vc = _vc()
    I = Interp(ctx)
    opname = ["DFT", "GridSample", "GroupNormalization", "Relu"][ctx.choose(4, "op")]
    alias = ctx.choose(2, "alias") == 1
    node_has_version = ctx.choose(2, "node.version set") == 1

    def mk_node(name, version):
        n = SObj(ir.Node, name)
        n.fields.update(domain="", op_type=opname, version=version, name=name, attributes={}, inputs=[], outputs=[])
        return n
    node = mk_node("n0", s if node_has_version else None)
    other = SObj(ir.Node, "custom")
    other.fields.update(domain="custom.domain", op_type="X", version=3, name="c", attributes={}, inputs=[], outputs=[])
    imports = {"": s}
    if alias:
        imports = {"ai.onnx": s} if ctx.choose(2, "alias-only") == 1 else {"": s, "ai.onnx": s}
    nodes = [node, other]
    # optionally a control-flow node AFTER the adapted node whose body holds a node no adapter touches: visiting that subgraph (the same
    # method recurses into it) must not make the converter forget that the enclosing graph was rewritten
    with_subgraph = ctx.choose(2, "an If node with an untouched body follows") == 1
    if with_subgraph:
        inner = SObj(ir.Node, "inner_relu")
        inner.fields.update(domain="", op_type="Relu", version=s if node_has_version else None, name="inner", attributes={}, inputs=[], outputs=[])
        body = GraphLike([inner], {})
        battr = SObj(ir.Attr, "then_branch")

        def is_ref():
            raise AssertionError

        def as_graph():
            raise AssertionError
        I.models[is_ref] = lambda interp: False
        I.models[as_graph] = lambda interp: body
        battr.fields.update(name="then_branch", type=ir.AttributeType.GRAPH, is_ref=is_ref, as_graph=as_graph)
        ifn = SObj(ir.Node, "if_node")
        ifn.fields.update(domain="", op_type="If", version=s if node_has_version else None, name="if", attributes={"then_branch": battr}, inputs=[], outputs=[])
        nodes.append(ifn)
    graph = GraphLike(nodes, imports)
    fnode = mk_node("f0", s if node_has_version else None)
    func = GraphLike([fnode], dict(imports))
    model = SObj(ir.Model, "model")
    model.fields.update(graph=graph, functions={"f": func}, opset_imports=imports)
    events = []
    behaviours = {}

    def m_process_node(interp, self, n, from_version, up_conversion=True):
        if (n.fields["op_type"], from_version) not in ADAPTED:
            return None
        b = ctx.choose(3, "adapter")  # 0 declines, 1 replaces, 2 raises
        behaviours[(n.name, from_version)] = b
        if b == 0:
            return None
        if b == 2:
            raise PyRaise(vc.VersionConverterError("adapter cannot convert this node"))
        new = SObj(ir.Node, "new")
        new.fields.update(domain="", op_type=n.fields["op_type"], version=None, name="new", attributes={}, inputs=[], outputs=[])
        return vc.Replacement([Opaque("out")], [new])

    def m_replace_nodes_and_values(interp, root, insertion_point, old_nodes, new_nodes, old_values, new_values):
        events.append(("replace", root, old_nodes, list(new_nodes)))
        for o in old_nodes:
            root.replace(o, new_nodes)
    import onnx_ir.convenience as ir_convenience
    import onnx_ir.passes.common as common
    I.models[vc._VersionConverter.process_node] = m_process_node
    I.models[ir_convenience.replace_nodes_and_values] = m_replace_nodes_and_values
    I.instance_models = [(ir.passes.PassBase, lambda interp, p, m: events.append(("pass", type(p).__name__)))]
    I.models[vc.metadata_merger.MetadataMerger.copy_merged_metadata] = lambda interp, self, a, b: None
    conv = I.instantiate(vc._VersionConverter, [], {"target_version": t})
    snapshot = ([n.fields["version"] for n in graph], [n.fields["version"] for n in func], dict(imports), list(graph), list(func))
    clo = I.closure_of(vc._VersionConverter.visit_model)
    try:
        I.run_closure(clo, [conv, model], {})
    except PyRaise as e:
        ctx.cover(f"visit_model.raised.{type(e.exc).__name__}")
        down = t < s
        ctx.check("C10.visit_model.refuses_only_down_conversion", down and isinstance(e.exc, vc.VersionConverterError), CL_HALF)
        untouched = ([n.fields["version"] for n in graph], [n.fields["version"] for n in func], dict(graph.opset_imports),
                     list(graph), list(func)) == snapshot and not events
        ctx.check("C10.visit_model.refused_conversion_leaves_model_untouched", untouched, CL_HALF)
        return
    ctx.cover("visit_model.returned")
    raised = any(b == 2 for b in behaviours.values())
    replaced = any(b == 1 for b in behaviours.values())
    for holder, nm in ((graph, "model"), (func, "function")):
        oi = holder.opset_imports
        ctx.check(f"C10.visit_model.{nm}_declares_target_opset", oi.get("") == t and "ai.onnx" not in oi, CL)
    cur = [n for n in graph if n.fields["domain"] == ""] + [n for n in func if n.fields["domain"] == ""]
    # a node without an explicit version follows the model's opset: consistent only if no step was needed
    ok_nodes = all(n.fields["version"] == t or (n.fields["version"] is None and s == t) for n in cur)
    if raised:
        ctx.check("C10.visit_model.nodes_at_target_version.when_an_adapter_raised", ok_nodes, CL_HALF)
    elif replaced:
        ctx.check("C10.visit_model.nodes_at_target_version.when_a_node_was_replaced", ok_nodes, CL)
    else:
        ctx.check("C10.visit_model.nodes_at_target_version", ok_nodes, CL)
    ctx.check("C10.visit_model.other_domains_untouched", other.fields["version"] == 3 and other in graph, CL)
    if replaced:
        ctx.check("C10.visit_model.namefix_runs_after_replacements", ("pass", "NameFixPass") in events,
                  "C10: 'passes the ONNX checker' — inserted values must get unique names")


def s_convert_range(ctx):
    """_version_converter.convert_version refuses targets outside 18..25 before touching the model."""
    vc = _vc()
    I = Interp(ctx)
    t = ctx.int("target")
    from pyvc.values import SInt
    visited = []
    I.models[vc._VersionConverter.visit_model] = lambda interp, self, m: visited.append(m)
    model = Opaque("model")
    try:
        I.call(vc.convert_version, [model, SInt(t)])
    except PyRaise as e:
        ctx.check("C10.convert_version.refuses_exactly_unsupported_targets", z3.Or(t < 18, t > 25), CL_HALF)
        ctx.check("C10.convert_version.refusal_before_any_change", isinstance(e.exc, ValueError) and not visited, CL_HALF)
        return
    ctx.check("C10.convert_version.accepts_exactly_supported_targets", z3.And(t >= 18, t <= 25), CL)
    ctx.check("C10.convert_version.visits_the_model_once", visited == [model], CL)


def s_requires_inline_call(ctx):
    """_ConvertVersionPassRequiresInline.call: decision table."""
    import onnx
    import onnx_ir as ir
    import onnxscript.version_converter as pkg
    vc = _vc()
    I = Interp(ctx)
    s = 18 + ctx.choose(8, "source")
    t = 18 + ctx.choose(8, "target")
    has_default = ctx.choose(2, "has default domain") == 0
    fallback = [False, True, None][ctx.choose(3, "fallback")]
    graph = SObj(ir.Graph, "graph")

    def val(name, const=None):
        v = SObj(ir.Value, name)
        v.fields.update(name=name, const_value=const)
        return v
    # interface: x is a plain input; w may be an initializer that is ALSO a graph input (overridable default);
    # c is a plain initializer
    w_is_input = ctx.choose(2, "an initializer is also a graph input") == 1
    x0, w0, c0 = val("x"), val("w", "W-data"), val("c", "C-data")
    inputs = [x0] + ([w0] if w_is_input else [])
    graph.fields.update(opset_imports=({"": s} if has_default else {}), initializers={"w": w0, "c": c0}, inputs=inputs)
    model = SObj(ir.Model, "model")
    model.fields.update(graph=graph)
    calls = []
    I.models[vc.convert_version] = lambda interp, m, target_version: calls.append(("native", m, target_version))
    c_ok = ctx.choose(2, "c-api ok") == 0

    def m_call_onnx_api(interp, func, model):
        calls.append(("c-api", model))
        if not c_ok:
            raise PyRaise(RuntimeError("onnx C API failed"))
        return Opaque("converted_proto")
    I.models[pkg._c_api_utils.call_onnx_api] = m_call_onnx_api
    newgraph = SObj(ir.Graph, "converted_graph")
    new_inputs = []

    # contract of call_onnx_api + from_proto: the converted graph lists the user inputs first, then the initializers
    # that were handed to the C API as extra inputs (values without data)
    conv_vals = [val("x")] + ([val("w")] if w_is_input else []) + ([] if w_is_input else [val("w")]) + [val("c")]
    ni = list(conv_vals)
    registered = []

    def reg(v):
        raise AssertionError
    new_inits = {}   # the stripped initializers come back as graph inputs only: the converted graph has no initializer of its own
    I.models[reg] = lambda interp, v: (registered.append(v), new_inits.__setitem__(v.fields["name"], v))[0]
    newgraph.fields.update(inputs=ni, register_initializer=reg, initializers=new_inits)
    cm = SObj(ir.Model, "converted_model")
    cm.fields.update(graph=newgraph)
    I.models[ir.from_proto] = lambda interp, p: cm
    p = m_instantiate_pass(I, pkg._ConvertVersionPassRequiresInline, {"target_version": t, "fallback": fallback})
    clo = I.closure_of(pkg._ConvertVersionPassRequiresInline.call)
    graph_before = model.fields["graph"]
    r = I.run_closure(clo, [p, model], {})
    native = [c for c in calls if c[0] == "native"]
    capi = [c for c in calls if c[0] == "c-api"]
    supported = (not has_default) or (18 <= s <= t <= 25)
    if has_default and s == t:
        ctx.check("C10.pass.same_version_is_a_noop", not calls and _modified(r) is False and model.fields["graph"] is graph_before, CL)
        return
    if (not fallback) or supported:
        ctx.check("C10.pass.native_converter_used_when_supported_or_no_fallback",
                  len(native) == 1 and native[0][1] is model and native[0][2] == t and not capi, CL)
        return
    ctx.check("C10.pass.fallback_uses_c_api_only_when_native_unsupported", not native and len(capi) == 1, CL)
    if not c_ok:
        ctx.check("C10.pass.failed_fallback_leaves_model_untouched",
                  model.fields["graph"] is graph_before and _modified(r) is False, CL_HALF)
    else:
        ctx.check("C10.pass.successful_fallback_installs_converted_graph", model.fields["graph"] is newgraph, CL)
        final = newgraph.fields["inputs"]
        ctx.check("C10.pass.fallback_keeps_exactly_the_graph_inputs_of_the_model", [v.fields["name"] for v in final] == [v.fields["name"] for v in inputs],
                  "C10: 'has the same inputs and outputs' — an initializer that is also a graph input stays a graph input")
        ctx.check("C10.pass.fallback_recovers_every_initializer_with_its_data", sorted(v.fields["name"] for v in registered) == ["c", "w"] and
                  all(v.fields["const_value"] == {"w": "W-data", "c": "C-data"}[v.fields["name"]] for v in registered), CL)


def _modified(r):
    return r.modified if not isinstance(r, SObj) else r.fields.get("modified")


def _mk(fn, *a):
    def run(ctx):
        return fn(ctx, *a)
    return run


def m_instantiate_pass(interp, cls, kwargs):
    o = SObj(cls, cls.__name__)
    o.fields.update(kwargs)
    return o


VM = "_VersionConverter."
SCENARIOS = [
    Scenario(f"C10.visit_model[{s}->{t}]", _mk(s_visit_model, s, t),
             [(REL, VM + "visit_model"), (REL, VM + "visit_graph_or_function"), (REL, VM + "visit_node"),
              (REL, VM + "replace_node"), (REL, VM + "visit_attribute"), (REL, "_set_onnx_opset_version"),
              (REL, "_get_onnx_opset_version"), (REL, VM + "__init__")],
             trusted=["ir.convenience.replace_nodes_and_values replaces exactly the given nodes by the new nodes (onnx_ir)",
                      "NameFixPass (onnx_ir)"],
             assumptions=["source/target opset enumerated over 18..25 — the supported range and the property's own quantifier (exhaustive there)",
                          "one default-domain node per graph and per function in the driver; adapter behaviour abstracted to declines/replaces/raises (adapters verified separately)"])
    for (s, t) in [(18, 18), (18, 19), (19, 20), (19, 21), (20, 21), (20, 22), (19, 25), (21, 20), (25, 18)]
] + [
    Scenario("C10.convert_version.range", s_convert_range, [(REL, "convert_version")]),
    Scenario("C10.pass.requires_inline.call", s_requires_inline_call,
             [(REL_INIT, "_ConvertVersionPassRequiresInline.call"), (REL, "version_supported")],
             trusted=["onnx.version_converter.convert_version (ONNX C++ converter) reached through _c_api_utils.call_onnx_api"]),
]


# ------------------------------------------------------------------ adapters ---------------

CL_AD = "C10: 'computes the same outputs as before for every input' — adapters dft_19_20 / gridsample_19_20 re-express the node at the new opset"


class OpRecorder:
    def __init__(self):
        self.calls = []

    def __getattr__(self, name):
        def f(*args, **kwargs):
            tok = ("call", name, args, tuple(sorted(kwargs.items(), key=lambda kv: kv[0])))
            self.calls.append(tok)
            return tok
        f._pyvc_native = True
        return f


def _node(I, ctx, op_type, n_inputs, attrs):
    import onnx_ir as ir
    n = SObj(ir.Node, "node")
    ad = {}
    for k, v in attrs.items():
        a = SObj(ir.Attr, "attr_" + k)
        a.fields.update(name=k, value=v)
        ad[k] = a
    n.fields.update(op_type=op_type, domain="", inputs=[("in", i) for i in range(n_inputs)], attributes=ad, outputs=[])
    return n


def s_dft_adapter(ctx):
    from pyvc.values import SInt
    vc = _vc()
    I = Interp(ctx)
    n_in = 1 + ctx.choose(2, "has dft_length")
    attrs = {}
    vals = {}
    for k in ("axis", "inverse", "onesided"):
        if ctx.choose(2, "has " + k) == 1:
            vals[k] = SInt(ctx.int(k))
            attrs[k] = vals[k]
    node = _node(I, ctx, "DFT", n_in, attrs)
    op = OpRecorder()
    clo = I.closure_of(vc.dft_19_20.__wrapped__ if hasattr(vc.dft_19_20, "__wrapped__") else vc.dft_19_20)
    r = I.run_closure(clo, [node, op], {})
    ok = isinstance(r, tuple) and r[1] == "DFT" and len(op.calls) == 2
    if "axis" not in vals:
        # DFT-17/19: attribute axis, DEFAULT 1; DFT-20: input axis, default -2 (operator documentation): a node without the attribute
        # means axis 1 and must say so once it is declared at opset 20
        ctx.check("C10.adapter.dft_19_20.an_absent_axis_attribute_becomes_the_input_1_its_old_default", ok and op.calls[0][1] == "Constant"
                  and dict(op.calls[0][3]).get("value_int") == 1 and r[2][2] is op.calls[0],
                  CL_AD + " — DFT-17..19: attribute axis with default 1; DFT-20: input axis with default -2")
        if not ok:
            return
    ctx.check("C10.adapter.dft_19_20.emits_constant_axis_and_dft", ok, CL_AD)
    if not ok:
        return
    c = op.calls[0]
    if "axis" in vals:
        ctx.check("C10.adapter.dft_19_20.axis_attribute_becomes_constant_input",
                  c[1] == "Constant" and dict(c[3]).get("value_int") is vals["axis"] and r[2][2] is c, CL_AD)
    ctx.check("C10.adapter.dft_19_20.input_and_dft_length_kept",
              r[2][0] == ("in", 0) and r[2][1] == (("in", 1) if n_in > 1 else None), CL_AD)
    kw = dict(r[3])
    ctx.check("C10.adapter.dft_19_20.other_attributes_kept",
              set(kw) == {"inverse", "onesided"} and all((kw[k] is vals[k]) if k in vals else kw[k] == 0 for k in kw), CL_AD)


def s_gridsample_adapter(ctx):
    from pyvc.values import SInt
    vc = _vc()
    I = Interp(ctx)
    modes = [None, "bilinear", "bicubic", "nearest", "linear", "cubic"]
    mode = modes[ctx.choose(len(modes), "mode")]
    attrs = {}
    if mode is not None:
        attrs["mode"] = mode
    ac = None
    if ctx.choose(2, "has align_corners") == 1:
        ac = SInt(ctx.int("align_corners"))
        attrs["align_corners"] = ac
    pm = [None, "zeros", "border", "reflection"][ctx.choose(4, "padding_mode")]
    if pm is not None:
        attrs["padding_mode"] = pm
    node = _node(I, ctx, "GridSample", 2, attrs)
    op = OpRecorder()
    clo = I.closure_of(vc.gridsample_19_20)
    r = I.run_closure(clo, [node, op], {})
    table = {"bilinear": "linear", "bicubic": "cubic"}
    if mode not in table:
        ctx.check("C10.adapter.gridsample_19_20.only_renamed_modes_are_rewritten", r is None and not op.calls, CL_AD)
        return
    ok = isinstance(r, tuple) and r[1] == "GridSample" and len(op.calls) == 1 and r[2] == (("in", 0), ("in", 1))
    ctx.check("C10.adapter.gridsample_19_20.same_inputs_one_node", ok, CL_AD)
    if not ok:
        return
    kw = dict(r[3])
    ctx.check("C10.adapter.gridsample_19_20.mode_table", kw.get("mode") == table[mode], CL_AD)
    ctx.check("C10.adapter.gridsample_19_20.other_attributes_kept",
              set(kw) == {"mode", "align_corners", "padding_mode"} and kw["padding_mode"] == (pm or "zeros")
              and ((kw["align_corners"] is ac) if ac is not None else kw["align_corners"] == 0), CL_AD)


SCENARIOS += [
    Scenario("C10.adapter.dft_19_20", s_dft_adapter, [(REL, "dft_19_20"), (REL, "_get_int_attribute")]),
    Scenario("C10.adapter.gridsample_19_20", s_gridsample_adapter, [(REL, "gridsample_19_20"), (REL, "_get_str_attribute"), (REL, "_get_int_attribute")]),
]


# ------------------------------------------------------------------ GroupNormalization 20->21 ---

def s_groupnorm_adapter(ctx):
    """Per-group scale/bias [G] -> per-channel [C]: the emitted chain must be Reshape([-1,1]) -> Expand([1,C/G]) ->
    Reshape([-1]), i.e. element c of the result is scale[c // (C/G)] (row-major), for all C = G*q."""
    from pyvc.values import SInt, term
    import onnx_ir as ir
    vc = _vc()
    I = Interp(ctx)
    G = ctx.int("G")
    q = ctx.int("q")
    ctx.assume(z3.And(G >= 1, q >= 1, G <= 1 << 20, q <= 1 << 20))
    C = G * q
    per_group = ctx.choose(2, "scale given per group") == 0
    x = SObj(ir.Value, "x")
    x.fields.update(shape=[Opaque("N"), SInt(C), Opaque("H")], name="x")
    sdim = SInt(G) if per_group else SInt(C)
    scale = SObj(ir.Value, "scale")
    scale.fields.update(shape=[sdim], name="scale")
    bias = SObj(ir.Value, "bias")
    bias.fields.update(shape=[sdim], name="bias")
    ng = SObj(ir.Attr, "num_groups")
    ng.fields.update(name="num_groups", value=SInt(G))
    node = SObj(ir.Node, "gn")
    node.fields.update(op_type="GroupNormalization", domain="", inputs=[x, scale, bias], attributes={"num_groups": ng}, outputs=[])
    op = OpRecorder()
    clo = I.closure_of(vc.groupnormalization_20_21)
    r = I.run_closure(clo, [node, op], {})
    needs = z3.And(G != C)  # per-group parameters differ from per-channel ones iff G != C
    if not per_group:
        ctx.check("C10.adapter.groupnorm_20_21.per_channel_parameters_left_alone", r is None and not op.calls, CL_AD)
        return
    if r is None:
        ctx.check("C10.adapter.groupnorm_20_21.declines_only_when_one_channel_per_group", G == C, CL_AD)
        return
    ctx.cover("groupnorm.rewritten")
    consts = [c for c in op.calls if c[1] == "Constant"]
    byid = {id(c): dict(c[3]).get("value_ints") for c in consts}

    def chain(final):
        """final = Reshape(Expand(Reshape(src, s1), e), s2) -> (src, s1, e, s2) or None"""
        if not (isinstance(final, tuple) and final[1] == "Reshape"):
            return None
        ex, s2 = final[2]
        if not (isinstance(ex, tuple) and ex[1] == "Expand"):
            return None
        r1, e = ex[2]
        if not (isinstance(r1, tuple) and r1[1] == "Reshape"):
            return None
        src, s1 = r1[2]
        return src, byid.get(id(s1)), byid.get(id(e)), byid.get(id(s2))
    ok = isinstance(r, tuple) and r[1] == "GroupNormalization" and len(r[2]) == 3 and r[2][0] is x
    ctx.check("C10.adapter.groupnorm_20_21.emits_groupnormalization_on_same_input", ok and dict(r[3]).get("num_groups") is not None
              and z3.is_true(z3.simplify(term(dict(r[3])["num_groups"]) == G)), CL_AD)
    if not ok:
        return
    for nm, src, val in (("scale", scale, r[2][1]), ("bias", bias, r[2][2])):
        ch = chain(val)
        okc = ch is not None and ch[0] is src and all(isinstance(v, list) for v in ch[1:])
        ctx.check(f"C10.adapter.groupnorm_20_21.{nm}_goes_through_reshape_expand_reshape", okc, CL_AD)
        if not okc:
            continue
        s1, e, s2 = ch[1:]
        shape_ok = len(s1) == 2 and len(e) == 2 and len(s2) == 1
        ctx.check(f"C10.adapter.groupnorm_20_21.{nm}_shapes_have_expected_rank", shape_ok, CL_AD)
        if not shape_ok:
            continue
        # [G] -> [G,1] -> broadcast with [1,q] = [G,q] -> [G*q]: row-major element c = scale[c // q]
        goal = z3.And(term(s1[0]) == -1, term(s1[1]) == 1, term(e[0]) == 1, term(e[1]) == q, term(s2[0]) == -1)
        ctx.check(f"C10.adapter.groupnorm_20_21.{nm}_element_c_is_group_value_of_channel_c", goal,
                  "C10: 'GroupNormalization per-group scale/bias' — Reshape([-1,1]) -> Expand([1,C/G]) -> Reshape([-1]) repeats each group value C/G times consecutively")


# ------------------------------------------------------------------ _c_api_utils.call_onnx_api ---

def s_call_onnx_api(ctx):
    """The model is left unchanged whether the C API call succeeds or raises (bounded: <= 2 initializers)."""
    import onnx_ir as ir
    from onnxscript.version_converter import _c_api_utils
    I = Interp(ctx)
    k = ctx.choose(3, "n_initializers")
    user_in = SObj(ir.Value, "x")
    user_in.fields.update(name="x", const_value=None, shape=Opaque("s"), dtype=Opaque("d"))
    inputs = [user_in]
    inits = {}
    recs = []
    for j in range(k):
        big = ctx.choose(2, f"init{j} big") == 1
        also_input = ctx.choose(2, f"init{j} also input") == 1
        t = SObj(ir.Tensor, f"t{j}")
        t.fields.update(size=(5000 if big else 10), shape=Opaque("ts"), dtype=Opaque("td"))
        v = SObj(ir.Value, f"w{j}")
        v.fields.update(name=f"w{j}", const_value=t, shape=Opaque("s"), dtype=Opaque("d"))
        inits[f"w{j}"] = v
        if also_input:
            inputs.append(v)
        recs.append((v, t))
    graph = SObj(ir.Graph, "graph")

    def reg(v):
        raise AssertionError
    I.models[reg] = lambda interp, v: inits.__setitem__(v.fields["name"], v)
    graph.fields.update(inputs=inputs, initializers=inits, register_initializer=reg)
    model = SObj(ir.Model, "model")
    model.fields.update(graph=graph)
    before_inputs = list(inputs)
    before_inits = dict(inits)
    I.models[ir.serde.serialize_model] = lambda interp, m: Opaque("proto")
    fails = ctx.choose(2, "C API raises") == 1

    def func(p):
        raise AssertionError
    seen = []

    def m_func(interp, p):
        seen.append((list(inputs), dict(inits)))
        if fails:
            raise PyRaise(RuntimeError("onnx C API failed"))
        return "RESULT"
    I.models[func] = m_func
    clo = I.closure_of(_c_api_utils.call_onnx_api)
    raised = None
    try:
        r = I.run_closure(clo, [func, model], {})
    except PyRaise as e:
        raised = e.exc
    tag = "when_the_api_raises" if fails else "on_success"
    ctx.check(f"C10.c_api.call_onnx_api.graph_inputs_restored.{tag}", len(inputs) == len(before_inputs) and all(a is b for a, b in zip(inputs, before_inputs)), CL_HALF)
    ctx.check(f"C10.c_api.call_onnx_api.initializers_restored.{tag}", inits == before_inits and all(v.fields["const_value"] is t for v, t in recs), CL_HALF)
    if fails:
        ctx.check("C10.c_api.call_onnx_api.exception_propagates", isinstance(raised, RuntimeError), CL_HALF)
    else:
        ctx.check("C10.c_api.call_onnx_api.returns_the_api_result", raised is None and r == "RESULT", CL)


SCENARIOS += [
    Scenario("C10.adapter.groupnorm_20_21", s_groupnorm_adapter, [(REL, "groupnormalization_20_21"), (REL, "_get_input")],
             trusted=["ONNX Reshape(-1)/Expand broadcasting semantics (operator documentation): [G]->[G,1]->[G,q]->[G*q] row-major"],
             assumptions=["C = G*q with 1 <= G, q <= 2**20 (GroupNormalization requires G | C)"]),
    Scenario("C10.c_api.call_onnx_api", s_call_onnx_api, [("onnxscript/version_converter/_c_api_utils.py", "call_onnx_api")],
             kind="bounded", bound="at most 2 initializers, each small/large and already a graph input or not; the API call succeeds or raises"),
]


# ------------------------------------------------------------------ adapter registry and process_node ---

def s_adapter_registry(_ctx):
    """AdapterRegistry on the real object: an adapter registered for (domain, operator, version, direction) is found under exactly that key and
    under no other version / direction / operator; every SHIPPED adapter `<op>_<a>_<b>` is registered for the version a it adapts FROM (upwards,
    b = a + 1), so that visit_node applies it exactly when a node at version a is taken to a + 1."""
    import re
    from contracts.c17_opsets import Agg
    from onnxscript.version_converter import _version_converter as vc
    agg = Agg()
    CLV = "C10: 'every node ... is converted ... to the target opset' - the adapter of an operator is applied at the version step it was written for"
    reg = vc.AdapterRegistry()

    def f1(node, op):
        return None

    def f2(node, op):
        return None
    w1 = reg.register("Foo", node_version=7)(f1)
    reg.register("Foo", node_version=9, up_conversion=False)(f2)
    ok = (reg.lookup_adapters("", "Foo", 7, True) is f1 and reg.lookup_adapters("", "Foo", 9, False) is f2 and reg.lookup_adapters("", "Foo", 7, False) is None
          and reg.lookup_adapters("", "Foo", 8, True) is None and reg.lookup_adapters("", "Bar", 7, True) is None and reg.lookup_adapters("x", "Foo", 7, True) is None
          and reg.lookup_adapters("", "Foo", 7) is f1 and callable(w1))
    agg.ob("C10.registry.an_adapter_is_found_under_exactly_the_key_it_was_registered_for", ok, "Foo@7 up, Foo@9 down", CLV)
    n = 0
    for (domain, op_type, version, up), fn in vc.registry.op_adapters.items():
        n += 1
        m = re.fullmatch(r"([a-z0-9]+)_(\d+)_(\d+)", fn.__name__)
        okk = domain == "" and m is not None and m.group(1) == op_type.lower() and int(m.group(2)) == version and (int(m.group(3)) == version + 1) == bool(up)
        agg.ob("C10.registry.each_shipped_adapter_is_registered_for_the_version_it_adapts_from", okk, f"{fn.__name__} registered for ({domain!r}, {op_type}, {version}, up={up})", CLV, case=fn.__name__)
    agg.ob("C10.registry.adapters_present", n >= 1, f"{n} adapters", CLV)
    return {"obligations": agg.obs, "paths": n + 1, "covered": [f"adapters={n}"], "notes": [], "functions": []}


def s_process_node(ctx):
    """_VersionConverter.process_node: the adapter looked up for (domain '', op_type, from_version, direction) is called once with the node and a
    fresh tape builder; a single value or a sequence of values becomes the replacement outputs IN ORDER together with the nodes THAT builder
    recorded; no adapter or an adapter that declines (None) means 'keep the node'."""
    import onnx_ir as ir
    from onnxscript.version_converter import _version_converter as vc
    I = Interp(ctx)
    has_adapter = ctx.choose(2, "an adapter is registered for this operator and version") == 0
    answer = ["None", "one value", "two values"][ctx.choose(3, "the adapter returns")]
    up = ctx.choose(2, "direction") == 0
    v1, v2 = SObj(ir.Value, "new1"), SObj(ir.Value, "new2")
    calls, lookups, tapes = [], [], []

    def adapter(*a):
        raise AssertionError
    I.models[adapter] = lambda interp, node_, op_: (calls.append((node_, op_)) or {"None": None, "one value": v1, "two values": [v1, v2]}[answer])
    I.models[vc.registry.lookup_adapters] = lambda interp, *a: (lookups.append(a) or (adapter if has_adapter else None))

    def m_tape(interp, *a, **k):
        t = SObj(vc.TapeBuilder, "tape")
        t.fields["nodes"] = ["recorded nodes", len(tapes)]
        tapes.append(t)
        return t
    I.models[vc.TapeBuilder] = m_tape
    made = []
    I.models[vc.Replacement] = lambda interp, outs, nodes: (made.append((outs, nodes)) or ("replacement", len(made)))
    node = SObj(ir.Node, "node")
    node.fields.update(domain="", op_type="DFT")
    conv = SObj(vc._VersionConverter, "converter")
    r = I.call(I.getattr(conv, "process_node"), [node, 19, up])
    CLV = "C10: each node is 'converted to the target opset' by the adapter written for that operator and version step, or kept"
    ctx.check("C10.process_node.adapter_looked_up_for_this_operator_version_and_direction", lookups == [("", "DFT", 19, up)], CLV)
    if not has_adapter or answer == "None":
        ctx.check("C10.process_node.node_kept_without_an_adapter_or_when_it_declines", r is None and not made and (len(calls) == (1 if has_adapter else 0)), CLV)
        return
    ok = r == ("replacement", 1) and len(calls) == 1 and calls[0][0] is node and len(tapes) == 1 and calls[0][1] is tapes[0]
    ctx.check("C10.process_node.adapter_called_once_with_the_node_and_a_fresh_builder", ok, CLV)
    if ok:
        outs, nodes = made[0]
        want = [v1] if answer == "one value" else [v1, v2]
        ctx.check("C10.process_node.replacement_holds_the_outputs_in_order_and_the_nodes_the_builder_recorded",
                  list(outs) == want and all(a is b for a, b in zip(outs, want)) and nodes is tapes[0].fields["nodes"], CLV)


SCENARIOS += [
    Scenario("C10.adapter_registry", s_adapter_registry, [(REL, "AdapterRegistry.register"), (REL, "AdapterRegistry.lookup_adapters"), (REL, "AdapterRegistry.register.decorator")], kind="evaluation"),
    Scenario("C10.process_node", s_process_node, [(REL, "_VersionConverter.process_node")], kind="bounded", bound="adapter present or not; three kinds of answers; both directions"),
]
