"""C02 / C14 — OnnxFunction._to_model_proto: opset imports, ir_version, functions, graph cloning.

The real _to_model_proto runs on an abstract function_ir (main graph with an opset-import map, a set of called
functions with their domains / recorded opset versions / own imports) with symbolic domains and versions:
  * the model imports every domain used by the main graph with the main graph's version;
  * every called function's own domain is imported (else "No opset import for domain" — invalid model);
  * the default domain is always imported: from the main graph, else from a called function, else the requested
    opset_version, else the current ONNX opset;
  * ir_version is the caller's, else select_ir_version of the default-domain version;
  * every called function is added to the model under its identifier;
  * the function's graph is cloned, never handed to the model itself (C14: building a model twice / afterwards mutating).
IRFunction.get_called_functions: transitive closure over callee metadata, each function once.
"""
from __future__ import annotations

import z3

from pyvc.harness import Scenario
from pyvc.interp import Interp, PyRaise
from pyvc.values import SObj, SStr, SInt, Opaque, term, wrap

REL = "onnxscript/_internal/values.py"
CL = "C02: 'every domain used ... is imported' / 'the resulting FunctionProto/ModelProto passes onnx.checker'"
CL14 = "C14: 'to_model_proto clones the graph before building the model' — the stored function is not handed out"


def s_to_model_proto(ctx):
    import onnx
    import onnx_ir as ir
    from onnxscript._internal import values
    I = Interp(ctx)
    main_has_default = ctx.choose(2, "main graph imports the default domain") == 0
    main_has_custom = ctx.choose(2, "main graph imports a custom domain") == 0
    v_main = ctx.int("v_main")
    v_cust = ctx.int("v_cust")
    main_imports = {}
    if main_has_default:
        main_imports[""] = SInt(v_main)
    if main_has_custom:
        main_imports["custom"] = SInt(v_cust)
    n_funcs = ctx.choose(3, "number of called functions")
    funcs = []
    for i in range(n_funcs):
        dom = ["custom", "this", "other"][ctx.choose(3, f"domain of function {i}")]
        f = SObj(ir.Function, f"func{i}")
        has_meta = ctx.choose(2, f"function {i} records its opset version") == 0
        fv = ctx.int(f"fver{i}")
        f_default = ctx.choose(2, f"function {i} imports the default domain") == 0
        fdv = ctx.int(f"fdefault{i}")
        fi = {dom: SInt(fv)} if has_meta else {}
        if f_default:
            fi[""] = SInt(fdv)
        f.fields.update(domain=dom, name=f"fn{i}", meta=({"opset_version": SInt(fv)} if has_meta else {}), opset_imports=fi)

        def ident():
            raise AssertionError
        I.models[ident] = (lambda d, n: lambda interp: (d, n, ""))(dom, f"fn{i}")
        f.fields["identifier"] = ident
        f.rec = (dom, has_meta, fv, f_default, fdv)
        funcs.append(f)
    stored_graph = SObj(ir.Graph, "stored_graph")
    clone = SObj(ir.Graph, "clone")
    clone.fields["opset_imports"] = dict(main_imports)
    stored_graph.fields["opset_imports"] = main_imports

    def m_clone():
        raise AssertionError
    I.models[m_clone] = lambda interp: clone
    stored_graph.fields["clone"] = m_clone
    fir = SObj(object, "function_ir")

    def m_called():
        raise AssertionError
    I.models[m_called] = lambda interp: {f.fields["name"]: (lambda o: (o.fields.update(function_ir=f), o)[1])(SObj(object, "onnxfunction")) for f in funcs}
    fir.fields.update(graph=stored_graph, get_called_functions=m_called)
    self = SObj(values.OnnxFunction, "self")
    self.fields["function_ir"] = fir
    models = []

    def m_model(interp, graph, ir_version=None, **k):
        m = SObj(ir.Model, "model")
        m.fields.update(graph=graph, ir_version=ir_version, functions={})
        models.append(m)
        return m
    I.models[ir.Model] = m_model
    proto = SObj(object, "model_proto")
    gp = SObj(object, "graphproto")
    gp.fields.update(value_info=[], input=[], output=[])
    proto.fields.update(opset_import=[("stale", "from-to_proto")], graph=gp)
    I.models[ir.to_proto] = lambda interp, m: proto
    I.models[onnx.OperatorSetIdProto] = lambda interp, domain=None, version=None: ("opset", domain, version)
    sel = z3.Function("select_ir_version", z3.IntSort(), z3.IntSort())
    I.models[values.select_ir_version] = lambda interp, v, domain="": SInt(sel(term(v)))
    cur = ctx.int("current_onnx_opset")
    I.models[onnx.defs.onnx_opset_version] = lambda interp: SInt(cur)
    req_kind = ctx.choose(2, "opset_version argument given")
    req = ctx.int("requested_opset")
    ir_given = ctx.choose(2, "ir_version keyword given") == 1
    irv = ctx.int("ir_version_kw")
    kwargs = {"opset_version": SInt(req) if req_kind == 1 else None}
    if ir_given:
        kwargs["ir_version"] = SInt(irv)
    try:
        r = I.run_closure(I.closure_of(values.OnnxFunction._to_model_proto), [self], kwargs)
    except PyRaise as e:
        ctx.check("C02.to_model_proto.returns_normally", False, CL)
        return
    ctx.check("C02.to_model_proto.returns_the_serialized_model", r is proto and len(models) == 1, CL)
    if len(models) != 1:
        return
    m = models[0]
    ctx.check("C14.to_model_proto.model_is_built_on_a_clone_of_the_stored_graph", m.fields["graph"] is clone and m.fields["graph"] is not stored_graph, CL14)
    ctx.check("C14.to_model_proto.stored_graph_imports_not_modified", stored_graph.fields["opset_imports"] is main_imports and
              set(main_imports) == ({""} if main_has_default else set()) | ({"custom"} if main_has_custom else set()), CL14)
    imps = proto.fields["opset_import"]
    ok = all(isinstance(x, tuple) and x[0] == "opset" for x in imps)
    ctx.check("C02.to_model_proto.opset_import_list_replaced_by_the_merged_imports", ok, CL)
    if not ok:
        return
    got = {}
    dup = False
    for _, d, v in imps:
        dup = dup or d in got
        got[d] = v
    ctx.check("C02.to_model_proto.no_domain_imported_twice", not dup, CL)
    for d, v in main_imports.items():
        ctx.check("C02.to_model_proto.main_graph_imports_kept", d in got, CL)
        if d in got:
            ctx.check("C02.to_model_proto.main_graph_imports_keep_their_versions", term(got[d]) == term(v), CL)
    for f in funcs:
        dom, has_meta, fv, f_default, fdv = f.rec
        ctx.check("C02.to_model_proto.domain_of_every_called_function_is_imported", dom in got, CL)
        if dom in got and dom not in main_imports:
            first = [g for g in funcs if g.rec[0] == dom][0]
            want = first.rec[2] if first.rec[1] else z3.IntVal(1)
            ctx.check("C02.to_model_proto.function_domain_version_is_the_recorded_one_else_1", term(got[dom]) == want, CL)
    ctx.check("C02.to_model_proto.default_domain_always_imported", "" in got, CL)
    if "" in got:
        if main_has_default:
            want = v_main
        else:
            fd = [f for f in funcs if f.rec[3]]
            want = fd[0].rec[4] if fd else (req if req_kind == 1 else cur)
        ctx.check("C02.to_model_proto.default_domain_version_from_main_graph_else_functions_else_request_else_current", term(got[""]) == want, CL)
        for f in funcs:
            if f.rec[3]:
                ctx.check("C02.to_model_proto.functions_use_the_default_domain_at_the_version_the_model_imports", f.rec[4] == term(got[""]),
                          "C02: 'every operator domain used is imported with a single version' — a model-local function carries its own import of the "
                          "default domain; onnx.checker rejects the model when an operator of the function differs between the two versions")
        want_ir = irv if ir_given else sel(term(got[""]))
        ctx.check("C02.to_model_proto.ir_version_is_the_callers_else_selected_for_the_default_opset", term(m.fields["ir_version"]) == want_ir, CL)
    fm = m.fields["functions"]
    ctx.check("C02.to_model_proto.every_called_function_is_in_the_model", all(any(v is f for v in fm.values()) for f in funcs) and
              all(fm.get((f.rec[0], f.fields["name"], "")) is f for f in funcs), CL)


def s_get_called_functions(ctx):
    """transitive closure over node.meta['callee'] (OnnxFunction callees only): every reachable function exactly once — also two functions
    that share a name in different domains"""
    import onnx_ir as ir
    from onnxscript._internal import irbuilder, values
    I = Interp(ctx)
    # call graph over 3 functions f0..f2 chosen arbitrarily (including cycles and self-calls), plus non-function callees
    fns = []
    # F0 and F2 share their NAME but live in different domains (two opsets may both define an op called F)
    for i, (dom, nm) in enumerate((("dom.zero", "F"), ("dom.one", "G"), ("dom.two", "F"))):
        o = SObj(values.OnnxFunction, f"F{i}")
        ops = SObj(values.Opset, f"opset{i}")
        ops.fields.update(domain=dom, version=1)
        o.fields.update(name=nm, _name=nm, opset=ops, _opset=ops, domain=dom)
        fns.append(o)
    edges = {}
    for src in ["main", 0, 1, 2]:
        outs = [j for j in range(3) if ctx.choose(2, f"{src} calls F{j}") == 1]
        edges[src] = outs
    graphs = {}

    def mk_ir(src):
        g = SObj(object, f"graph_{src}")
        fir = SObj(irbuilder.IRFunction, f"ir_{src}")
        fir.fields["graph"] = g
        fir.fields["_graph"] = g
        nodes = []
        for j in edges[src]:
            n = SObj(ir.Node, "callnode")
            n.fields["meta"] = {"callee": fns[j]}
            nodes.append(n)
        plain = SObj(ir.Node, "plainnode")
        plain.fields["meta"] = {}
        other = SObj(ir.Node, "opnode")
        other.fields["meta"] = {"callee": SObj(values.Op, "plain_op")}
        graphs[id(g)] = nodes + [plain, other]
        return fir
    main = mk_ir("main")
    for i in range(3):
        fns[i].fields["function_ir"] = mk_ir(i)
    def m_iter(interp, g):
        if id(g) not in graphs:
            raise AssertionError(f"unexpected graph {g!r} fields={getattr(g, 'fields', None)}")
        return list(graphs[id(g)])
    I.models[ir.traversal.RecursiveGraphIterator] = m_iter
    r = I.run_closure(I.closure_of(irbuilder.IRFunction.get_called_functions), [main], {})
    reach, todo = set(), list(edges["main"])
    while todo:
        j = todo.pop()
        if j not in reach:
            reach.add(j)
            todo.extend(edges[j])
    got = list(r.values()) if isinstance(r, dict) else []
    ctx.check("C02.get_called_functions.is_the_transitive_closure_of_the_call_graph",
              isinstance(r, dict) and len(got) == len(reach) and all(any(g is fns[j] for g in got) for j in reach),
              "C02: 'every name used is defined' — a model must carry every function it (transitively) calls")


def s_append_node(ctx):
    """IRFunction.append_node: the node is appended and named n<count>; its (domain, version) is recorded as an opset
    import unless the domain is already imported (a differing version only warns, the first one stays)."""
    import warnings
    import onnx_ir as ir
    from onnxscript._internal import irbuilder
    I = Interp(ctx)
    I.noop_attr_calls = {"logger", "logging"}   # the warning is part of this contract
    fn = SObj(irbuilder.IRFunction, "fn")
    count = ctx.int("count")
    ctx.assume(count >= 0)
    appended = []
    I.models[ir.Function.__len__] = lambda interp, slf: SInt(count)
    I.models[ir.Function.append] = lambda interp, slf, n: appended.append(n)
    warned = []
    I.models[warnings.warn] = lambda interp, *a, **k: warned.append(a)
    pre = {}
    v_old = ctx.int("v_old")
    if ctx.choose(2, "the node's domain is already imported") == 1:
        pre["dom"] = SInt(v_old)
    if ctx.choose(2, "another domain is imported") == 1:
        pre["elsewhere"] = SInt(ctx.int("v_else"))
    before = dict(pre)
    g = SObj(object, "graph")
    g.fields["opset_imports"] = pre
    fn.fields["_graph"] = g
    I.models[ir.Function.opset_imports.fget] = lambda interp, slf: pre
    node = SObj(ir.Node, "node")
    v_new = ctx.int("v_new")
    node.fields.update(domain="dom", version=SInt(v_new), name=None)
    I.run_closure(I.closure_of(irbuilder.IRFunction.append_node), [fn, node], {})
    ctx.check("C02.append_node.node_appended_once", appended == [node], CL)
    nm = node.fields["name"]
    ctx.check("C02.append_node.node_named_by_its_position", isinstance(nm, (SStr, str)) and True, CL)
    if isinstance(nm, SStr):
        ctx.check("C02.append_node.node_name_is_n_count", nm.t == z3.Concat(z3.StringVal("n"), z3.IntToStr(count)), CL)
    ctx.check("C02.append_node.domain_imported_afterwards", "dom" in pre, CL)
    if "dom" in pre:
        want = v_old if "dom" in before else v_new
        ctx.check("C02.append_node.first_version_of_a_domain_is_kept", term(pre["dom"]) == want, CL)
    ctx.check("C02.append_node.other_imports_untouched", all(k in pre and pre[k] is before[k] for k in before if k != "dom") and set(pre) <= set(before) | {"dom"}, CL)
    if "dom" in before:
        conflict = v_old != v_new
        # a warning iff the versions differ
        if warned:
            ctx.check("C02.append_node.warns_only_on_a_version_conflict", conflict, CL)
        else:
            ctx.check("C02.append_node.version_conflict_is_reported", z3.Not(conflict), CL)


SCENARIOS = [
    Scenario("C02.append_node", s_append_node, [("onnxscript/_internal/irbuilder.py", "IRFunction.append_node")],
             trusted=["ir.Function.append / __len__ / opset_imports (onnx_ir)"]),
    Scenario("C02.to_model_proto", s_to_model_proto, [(REL, "OnnxFunction._to_model_proto")],
             kind="bounded", bound="0-2 called functions over 3 domains; all versions symbolic",
             trusted=["ir.to_proto / ir.Model (onnx_ir)", "select_ir_version abstracted as an uninterpreted function of the default opset version"], max_paths=20000),
    Scenario("C02.get_called_functions", s_get_called_functions,
             [("onnxscript/_internal/irbuilder.py", "IRFunction.get_called_functions"), ("onnxscript/_internal/irbuilder.py", "IRFunction.get_called_functions.visit"),
              ("onnxscript/_internal/irbuilder.py", "IRFunction.get_called_functions.add")],
             kind="bounded", bound="call graphs over main + 3 functions (all 2^12 edge sets, cycles included)",
             trusted=["ir.traversal.RecursiveGraphIterator enumerates every node of a graph and of its subgraphs"], max_paths=20000),
]
