"""C01 — Converter._translate_assign_stmt: an assignment statement means what it means in Python.

  C01.converter.assign.parallel[any length]   `t_0, ..., t_{n-1} = e_0, ..., e_{n-1}` for ANY n: every right-hand side is translated in the
        environment the statement started in (Python evaluates the whole right-hand side before it binds any target: `x, y = y, x` swaps);
        afterwards target j is bound to the value of e_j (a repeated target keeps the last one) and every other name is untouched;
        different lengths are refused.  Two loops (translate / bind), each with an inductive invariant at one arbitrary (Skolem) position;
        the name scope is a symbolic map (pyvc SMap) so that "some name the expression reads" is one arbitrary name.
  C01.converter.assign.shapes                 the statement shapes on real `ast` nodes: `x = e`, `x: T = e`, `x, y = f(...)` (one node, one
        output per target, target i bound to output i), `x, y = e1, e2`, nested `(a, b), c = f(...), e`; refusals: `x = y = e`,
        `x = e1, e2`, `x, y = e` with e not a call, `x[0] = e`, `x.a = e`, `x, y = e1, e2, e3`  (bounded: <= 3 targets)
"""
from __future__ import annotations

import ast

import z3

from contracts import convmodel as CM
from pyvc.harness import Scenario
from pyvc.interp import Interp, PyRaise, LoopSpec, SMap
from pyvc.values import SObj, SStr, SInt, SSeq, term

REL = "onnxscript/_internal/converter.py"
CL = ("C01: 'both equal the result of reading the source as ordinary Python control flow over tensors' - an assignment evaluates its whole "
      "right-hand side before binding any target; 'tuple assignment from multi-output ops'")
CL_REFUSE = "C01: 'A program is either refused at decoration time or translated faithfully'"
I_ = z3.IntSort()
S_ = z3.StringSort()
A = z3.ArraySort


def _world(ctx):
    from onnxscript._internal import converter as conv, values
    import onnx_ir as ir
    I = Interp(ctx, models=CM.converter_models())
    self = CM.new_converter(I)
    C = CM._conv_cls()
    return I, self, C, conv, values, ir


def s_parallel_anylen(ctx):
    I, self, C, conv, values, ir = _world(ctx)
    n, m = ctx.int("targets"), ctx.int("right_hand_sides")
    ctx.assume(z3.And(n >= 1, m >= 1))
    i0, j0 = ctx.int("i0"), ctx.int("j0")
    ctx.assume(z3.And(i0 >= 0, i0 < m, j0 >= 0, j0 < n))
    u0 = z3.String("some_name")
    ctx.witness.update(n=n, m=m, i0=i0, j0=j0, u0=u0)
    tname = z3.Function("target_name", I_, S_)
    has0, val0 = z3.Const("scope_has", A(S_, z3.BoolSort())), z3.Const("scope_val", A(S_, I_))
    # the value a name is bound to is identified by an integer: the value of right-hand side i is V(i) = 1000000 + i ... kept abstract:
    V = z3.Function("value_of_rhs", I_, I_)
    seen_has, seen_val = z3.Function("scope_seen_by_rhs_has", I_, A(S_, z3.BoolSort())), z3.Function("scope_seen_by_rhs_val", I_, A(S_, I_))

    def un(sv):
        if isinstance(sv, SObj) and "value" in sv.fields:
            return sv.fields["value"].vid
        raise AssertionError(f"unexpected object bound to a name: {sv!r}")
    scope = SMap(has0, val0, mk=SInt, un=un, name="scope")
    self.fields["_locals"] = [scope]

    def m_translate_expr(interp, slf, node, target=None):
        i = node.pos
        # ghost: the name scope this right-hand side is translated in (each position is translated once: defining equations)
        ctx.assume(seen_has(i) == scope.has)
        ctx.assume(seen_val(i) == scope.val)
        v = SObj(ir.Value, "rhs_value")
        v.vid = V(i)
        v.pos = i
        return v
    I.models[C._translate_expr] = m_translate_expr

    def m_symbol_value(interp, value, info):
        sv = SObj(values.SymbolValue, "symval")
        sv.fields.update(value=value, info=info)
        return sv
    I.models[values.SymbolValue] = m_symbol_value

    def tgt(j):
        t = SObj(ast.Name, "target")
        t.fields.update(id=SStr(tname(j)), lineno=1, col_offset=0)
        t.pos = j
        return t

    def rhs(i):
        e = SObj(ast.BinOp, "rhs")
        e.fields.update(lineno=1, col_offset=0)
        e.pos = i
        return e
    lhs_t, rhs_t = SObj(ast.Tuple, "lhs"), SObj(ast.Tuple, "rhs")
    lhs_t.fields["elts"] = SSeq(n, lambda j: tgt(z3.simplify(j)), name="lhs.elts")
    rhs_t.fields["elts"] = SSeq(m, lambda i: rhs(z3.simplify(i)), name="rhs.elts")
    stmt = SObj(ast.Assign, "stmt")
    stmt.fields.update(targets=[lhs_t], value=rhs_t, lineno=1, col_offset=0)

    # -- loop 0: translate every right-hand side, collecting (name, value) pairs; the scope is NOT written
    desc = {}

    def mk_bindings(interp):
        L = ctx.int("len_bindings")
        ctx.assume(L >= 0)
        desc["name"] = z3.Function(ctx.fresh("pending_name"), I_, S_)
        desc["vid"] = z3.Function(ctx.fresh("pending_vid"), I_, I_)

        def get(j):
            v = SObj(ir.Value, "pending_value")
            v.vid = desc["vid"](j)
            sv = SObj(values.SymbolValue, "symval")
            sv.fields.update(value=v, info=None)
            return (SStr(desc["name"](j)), sv)
        s = SSeq(L, get, name="bindings")
        s.mutable = True
        return s

    def pending(lst, j):
        """(name, value id) of entry j of the list of pending bindings (no forking)"""
        nm, vid = desc["name"](j), desc["vid"](j)
        for old_len, item in getattr(lst, "appended", []):
            nm = z3.If(j == old_len, term(item[0]), nm)
            vid = z3.If(j == old_len, un(item[1]), vid)
        for old_len, xs_len, xs_get in getattr(lst, "extended", []):
            raise AssertionError("extend with a symbolic list is not expected here")
        return nm, vid

    def inv_translate(interp, env, k, pre, it):
        lst = env.lookup("bindings")
        out = [("the_scope_is_not_written_while_right_hand_sides_are_translated", z3.And(scope.has == has0, scope.val == val0)),
               ("a_translated_right_hand_side_saw_the_scope_of_before_the_statement",
                z3.Implies(k > i0, z3.And(z3.Select(seen_has(i0), u0) == z3.Select(has0, u0), z3.Select(seen_val(i0), u0) == z3.Select(val0, u0))))]
        if not isinstance(lst, SSeq):
            out.append(("one_pending_binding_per_translated_pair", k == len(lst)))
            return out
        # stated for EVERY position (a universally quantified invariant: the bind loop needs it at its own position, not at a fixed one)
        q = z3.Int("q")
        nm, vid = pending(lst, q)
        out.append(("one_pending_binding_per_translated_pair", lst.len == k))
        out.append(("pending_binding_j_is_target_j_with_the_value_of_right_hand_side_j",
                    z3.ForAll([q], z3.Implies(z3.And(q >= 0, q < k), z3.And(nm == tname(q), vid == V(q))))))
        return out
    I.loops[("Converter._translate_assign_stmt", 0)] = LoopSpec({"bindings": mk_bindings}, inv_translate)

    # -- loop 1: bind the pending pairs in order
    def havoc_scope(interp, env):
        scope.has = z3.Const(ctx.fresh("has"), A(S_, z3.BoolSort()))
        scope.val = z3.Const(ctx.fresh("val"), A(S_, I_))
    jj = z3.Int("jj")
    no_later_same = z3.ForAll([jj], z3.Implies(z3.And(jj > j0, jj < n), tname(jj) != tname(j0)))
    not_a_target = z3.ForAll([jj], z3.Implies(z3.And(jj >= 0, jj < n), tname(jj) != u0))

    def inv_bind(interp, env, k, pre, it):
        return [("a_bound_target_holds_the_value_of_its_right_hand_side_unless_rebound_later",
                 z3.Implies(z3.And(k > j0, no_later_same), z3.And(z3.Select(scope.has, tname(j0)), z3.Select(scope.val, tname(j0)) == V(j0)))),
                ("names_that_are_no_targets_are_untouched",
                 z3.Implies(not_a_target, z3.And(z3.Select(scope.has, u0) == z3.Select(has0, u0), z3.Select(scope.val, u0) == z3.Select(val0, u0))))]
    I.loops[("Converter._translate_assign_stmt", 1)] = LoopSpec({}, inv_bind, heap_havoc=havoc_scope)

    P = "C01.converter.assign.parallel.any_length."
    try:
        I.call(I.getattr(self, "_translate_assign_stmt"), [stmt])
    except PyRaise as e:
        ctx.cover("assign.parallel.refused")
        ctx.check(P + "refused_only_if_the_numbers_of_targets_and_right_hand_sides_differ", n != m, CL_REFUSE)
        return
    ctx.cover("assign.parallel.translated")
    ctx.check(P + "different_lengths_are_refused", n == m, CL_REFUSE)
    ctx.check(P + "every_right_hand_side_is_translated_in_the_scope_of_before_the_statement",
              z3.And(z3.Select(seen_has(i0), u0) == z3.Select(has0, u0), z3.Select(seen_val(i0), u0) == z3.Select(val0, u0)), CL)
    ctx.check(P + "each_target_is_bound_to_the_value_of_its_right_hand_side",
              z3.Implies(no_later_same, z3.And(z3.Select(scope.has, tname(j0)), z3.Select(scope.val, tname(j0)) == V(j0))), CL)
    ctx.check(P + "no_other_name_is_rebound",
              z3.Implies(not_a_target, z3.And(z3.Select(scope.has, u0) == z3.Select(has0, u0), z3.Select(scope.val, u0) == z3.Select(val0, u0))), CL)


# ------------------------------------------------------------------ statement shapes on real ast nodes (bounded) ---

SHAPES = [
    # (source, verdict, bindings expected: name -> ("expr", k) k-th translated expression | ("out", k) k-th output of the call node)
    ("x = a + b", "ok", {"x": ("expr", 0)}),
    ("x: FLOAT = a + b", "ok", {"x": ("expr", 0)}),
    ("x, y = f(a)", "ok", {"x": ("out", 0), "y": ("out", 1)}),
    ("x, y, z = f(a)", "ok", {"x": ("out", 0), "y": ("out", 1), "z": ("out", 2)}),
    ("x, y = a + b, a - b", "ok", {"x": ("expr", 0), "y": ("expr", 1)}),
    ("x, y = y, x", "ok", {"x": ("expr", 0), "y": ("expr", 1)}),
    ("x, y, z = z, x, y", "ok", {"x": ("expr", 0), "y": ("expr", 1), "z": ("expr", 2)}),
    ("(p, q), y = f(a), x", "ok", {"p": ("out", 0), "q": ("out", 1), "y": ("expr", 0)}),
    ("x = y = a", "refused", None),
    ("x = a, b", "refused", None),
    ("x, y = a", "refused", None),
    ("x, y = a, b, c", "refused", None),
    ("x[0] = a", "refused", None),
    ("x.attr = a", "refused", None),
    ("x, y[0] = f(a)", "refused", None),
]


def s_shapes(ctx):
    I, self, C, conv, values, ir = _world(ctx)
    k = ctx.choose(len(SHAPES), "statement shape")
    src, verdict, want = SHAPES[k]
    stmt = ast.parse(src).body[0]
    # the scope before the statement: every name the statements read is bound to its own value
    pre = {}
    for nm in ("a", "b", "c", "x", "y", "z"):
        v = SObj(ir.Value, "pre_" + nm)
        v.fields.update(name="pre_" + nm)
        pre[nm] = I.call(values.SymbolValue, [v, CM.real_info()])
    self.fields["_locals"] = [dict(pre)]
    exprs, seen = [], []

    def m_translate_expr(interp, slf, node, target=None):
        # what the translation of this expression READS: the bindings of its names at this moment
        scope = slf.fields["_locals"][-1]
        seen.append({n.id: scope.get(n.id) for n in ast.walk(node) if isinstance(n, ast.Name) and n.id in pre})
        v = SObj(ir.Value, "expr_value")
        v.fields.update(name=f"e{len(exprs)}")
        exprs.append(v)
        return v
    I.models[C._translate_expr] = m_translate_expr
    callnodes = []

    def m_translate_call_expr(interp, slf, node):
        scope = slf.fields["_locals"][-1]
        seen.append({n.id: scope.get(n.id) for n in ast.walk(node) if isinstance(n, ast.Name) and n.id in pre})
        return ("callee", ["inputs"], [])
    I.models[C._translate_call_expr] = m_translate_call_expr
    I.models[C._get_type_annotation] = lambda interp, slf, ann: None
    P = "C01.converter.assign."
    try:
        I.call(I.getattr(self, "_translate_assign_stmt"), [stmt])
    except PyRaise as e:
        ctx.check(P + "refused_only_if_unsupported", verdict == "refused", CL_REFUSE)
        return
    ctx.check(P + "unsupported_shapes_are_refused", verdict == "ok", CL_REFUSE)
    if verdict != "ok":
        return
    log = ctx.ghost["log"]
    outs = [v for n in log.nodes for v in n["out_values"]]
    scope = self.fields["_locals"][-1]
    ok = True
    for nm, (kind, idx) in want.items():
        sv = scope.get(nm)
        got = I.getattr(sv, "value") if sv is not None else None
        exp = (exprs[idx] if idx < len(exprs) else None) if kind == "expr" else (outs[idx] if idx < len(outs) else None)
        ok = ok and got is exp and exp is not None
    ctx.check(P + "each_target_is_bound_to_the_value_it_denotes_in_python", ok, CL)
    ctx.check(P + "no_other_name_is_rebound", all(scope.get(nm) is pre[nm] for nm in pre if nm not in want) and set(scope) == set(pre) | set(want), CL)
    ctx.check(P + "every_right_hand_side_reads_the_bindings_of_before_the_statement", all(s[nm] is pre[nm] for s in seen for nm in s), CL)
    if any(kind == "out" for kind, _ in want.values()):
        ncall = sum(1 for kind, _ in want.values() if kind == "out")
        ctx.check(P + "unpacking_a_call_emits_one_node_with_one_fresh_output_per_target",
                  len(log.nodes) == 1 and len(outs) == ncall and len({id(o.fields["name"]) for o in outs}) == ncall, CL)


F = lambda *q: [(REL, x) for x in q]
SCENARIOS = [
    Scenario("C01.converter.assign.parallel[any length]", s_parallel_anylen,
             F("Converter._translate_assign_stmt", "Converter._translate_assign_stmt.assign", "Converter._bind"),
             trusted=["_translate_expr(rhs, target) translates rhs in the current name scope and returns its value (per-operator translation: assumed, DESIGN 4 C01 A/R)"],
             assumptions=["two loop invariants, each at one arbitrary (Skolem) position; termination not proved",
                          "targets of the symbolic-length form are plain names (other target shapes: the bounded scenario)"]),
    Scenario("C01.converter.assign.shapes", s_shapes,
             F("Converter._translate_assign_stmt", "Converter._translate_assign_stmt.assign", "Converter._translate_assign_stmt.assign.generate_onnx_name",
               "Converter._bind", "Converter._fail"),
             kind="bounded", bound=f"{len(SHAPES)} statement shapes on real ast nodes, <= 3 targets"),
]


# ------------------------------------------------------------------ attribute parameters promoted to tensors ---

def _f(o, name):
    """field of a real object or of a symbolic-heap stand-in"""
    return o.fields.get(name) if isinstance(o, SObj) else getattr(o, name, None)


def s_attr_promotion(ctx):
    """Converter._to_onnx_var / _to_onnx_attr_ref on attribute parameters used as tensor operands: EVERY use is computed by a Constant node
    whose attribute is a REFERENCE to the parameter that was used (kind table FLOAT / INT / STRING / INTS), followed by Cast(to=BOOL) iff
    the parameter is a Python bool; the result is castable; other kinds are refused.  Sequences of uses of TWO parameters (same or different
    kind) in one graph: a use of `beta` after a use of `alpha` must still denote beta."""
    import onnx_ir as ir
    from onnxscript._internal import values
    from onnxscript import onnx_types
    I, self, C, conv, values_, _ir = _world(ctx)
    kinds = [ir.AttributeType.FLOAT, ir.AttributeType.INT, ir.AttributeType.STRING, ir.AttributeType.INTS, ir.AttributeType.FLOATS]
    table = {ir.AttributeType.FLOAT: "value_float", ir.AttributeType.INT: "value_int", ir.AttributeType.STRING: "value_string", ir.AttributeType.INTS: "value_ints"}
    params = {}
    for nm in ("alpha", "beta"):
        k = kinds[ctx.choose(len(kinds), f"kind of {nm}")]
        as_bool = k is ir.AttributeType.INT and ctx.choose(2, f"{nm} is a python bool") == 1
        attr = ir.Attr(nm, k, value=None)
        params[nm] = (values.AttrRef(attr, as_bool, CM.real_info()), k, as_bool)
    order = [["alpha", "beta"], ["alpha", "beta", "alpha"], ["beta", "alpha"]][ctx.choose(3, "order of uses")]
    log = ctx.ghost["log"]
    P = "C01.converter.attribute_parameter."
    CLA = "C01: 'attribute parameters promoted to tensors' - the tensor denotes the attribute parameter that the source names"
    for use, nm in enumerate(order):
        ref, k, as_bool = params[nm]
        n0 = len(log.nodes)
        try:
            r = I.call(I.getattr(self, "_to_onnx_var"), [ref, "t", CM.real_info()])
        except PyRaise:
            ctx.check(P + "refused_only_for_kinds_without_a_Constant_form", k not in table, CL_REFUSE)
            return
        ctx.check(P + "kinds_without_a_Constant_form_are_refused", k in table, CL_REFUSE)
        if k not in table:
            return
        # the value must be computed by a Constant (and a Cast for bools) whose attribute refers to THIS parameter — a node emitted now or earlier
        prod = r.fields.get("ghost_node") if isinstance(r, SObj) else None
        okc = prod is not None
        if okc and as_bool:
            okc = prod["op"] == "Cast" and len(prod["inputs"]) == 1 and [(_f(a, "name"), _f(a, "value")) for a in prod["attrs"]] == [("to", onnx_types.BOOL.dtype)]
            prod = prod["inputs"][0].fields.get("ghost_node") if okc else None
        ctx.check(P + "a_python_bool_parameter_is_cast_to_BOOL_and_only_it", okc and prod is not None and (as_bool or prod["op"] == "Constant"), CLA)
        if not (okc and prod is not None):
            return
        attrs = prod["attrs"]
        ok = prod["op"] == "Constant" and not prod["inputs"] and len(attrs) == 1 and _f(attrs[0], "ref_attr_name") == nm and _f(attrs[0], "name") == table[k] \
            and _f(attrs[0], "type") is k
        ctx.check(P + "each_use_is_a_Constant_whose_attribute_refers_to_the_parameter_used", ok,
                  CLA + f" (use {use + 1} of {order}: got {[(_f(a, 'name'), _f(a, 'ref_attr_name')) for a in attrs]})")
        nm_r = r.fields["name"]
        ctx.check(P + "the_promoted_tensor_is_castable", I.contains(self.fields["_castable"], nm_r) is True or nm_r in self.fields["_castable"], "C12: attribute parameters promoted to tensors take the operand's type")


SCENARIOS.append(Scenario("C01.converter.attribute_parameter", s_attr_promotion, F("Converter._to_onnx_var", "Converter._to_onnx_attr_ref"),
                          kind="bounded", bound="two attribute parameters, each of kind FLOAT / INT (int or bool) / STRING / INTS / FLOATS; three orders of 2-3 uses in one graph"))
