"""Native replay for C18 _inliner.instantiate: call_inline of a script function with optional inputs, arguments omitted (trailing) or None,
against call(): the inlined graph must be valid and compute what the call computes."""
import sys
from typing import Optional

import numpy as np
import onnx
import onnx_ir as ir
import onnxruntime as ort

from onnxscript import FLOAT, script
from onnxscript import opset18 as op
from onnxscript._internal import builder as B


@script(default_opset=op)
def clip3(x: FLOAT[3], lo: Optional[FLOAT] = None, hi: Optional[FLOAT] = None) -> FLOAT[3]:
    return op.Clip(x, lo, hi)


def build(args):
    g = ir.Graph([], [], nodes=[], opset_imports={"": 18}, name="main")
    gb = B.GraphBuilder(g)
    x = gb.input("x", ir.DataType.FLOAT, [3])
    c = {"lo": gb.op.Constant(value_float=0.0), "hi": gb.op.Constant(value_float=2.0)}
    y = gb.call_inline(clip3, x, *[c[t] if t else None for t in args])
    y = y[0] if isinstance(y, (list, tuple)) else y
    y.name = "y"
    y.type = ir.TensorType(ir.DataType.FLOAT)
    g.outputs.append(y)
    return ir.serde.serialize_model(ir.Model(g, ir_version=9))


def main():
    bad = 0
    x = np.array([-1.0, 1.0, 3.0], np.float32)
    for args, want in (([], x), (["lo"], np.maximum(x, 0)), ([None, "hi"], np.minimum(x, 2)), (["lo", "hi"], np.clip(x, 0, 2)), ([None], x)):
        p = build(args)
        try:
            onnx.checker.check_model(p)
            got = ort.InferenceSession(p.SerializeToString(), providers=["CPUExecutionProvider"]).run(None, {"x": x})[0]
        except Exception as e:  # noqa: BLE001
            print(f"call_inline(clip3, x, {', '.join(str(a) for a in args)}): the graph {[(n.op_type, list(n.input)) for n in p.graph.node]} is invalid: {str(e).splitlines()[0][:160]}")
            bad += 1
            continue
        if not np.array_equal(got, want):
            print(f"call_inline(clip3, x, {args}): {got.tolist()} instead of {want.tolist()}")
            bad += 1
    sys.exit(1 if bad else 0)


if __name__ == "__main__":
    main()
