"""Native replay for C13 'next state is assigned simultaneously': a for-Loop whose body returns its two state inputs swapped / rotated
(plus a computation), exported with proto2python, re-imported and compared with the original on onnxruntime."""
import importlib.util
import os
import sys
import tempfile

import numpy as np
import onnxruntime as ort
from onnx import TensorProto as TP
from onnx import helper as oh

import onnxscript


def model(kind):
    vi = lambda n, t=TP.FLOAT, s=(2,): oh.make_tensor_value_info(n, t, list(s))  # noqa: E731
    if kind == "swap":
        nodes = [oh.make_node("Identity", ["c_in"], ["c_out"])]
        outs = ["b_in", "a_in"]
    else:   # a' = a + b, b' = a  (Fibonacci-like: the old a goes to b)
        nodes = [oh.make_node("Identity", ["c_in"], ["c_out"]), oh.make_node("Add", ["a_in", "b_in"], ["a_new"])]
        outs = ["a_new", "a_in"]
    body = oh.make_graph(nodes, "body", [vi("it", TP.INT64, ()), vi("c_in", TP.BOOL, ()), vi("a_in"), vi("b_in")],
                         [vi("c_out", TP.BOOL, ())] + [vi(o) for o in outs])
    g = oh.make_graph([oh.make_node("Loop", ["n", "", "A", "B"], ["FA", "FB"], body=body), oh.make_node("Sub", ["FA", "FB"], ["Y"])], "g",
                      [vi("n", TP.INT64, ()), vi("A"), vi("B")], [vi("Y")])
    return oh.make_model(g, opset_imports=[oh.make_opsetid("", 18)], ir_version=9)


def run(m, feeds):
    s = ort.InferenceSession(m.SerializeToString(), providers=["CPUExecutionProvider"])
    return s.run(None, dict(zip([i.name for i in s.get_inputs()], feeds)))[0]


def main():
    bad = 0
    for kind in ("swap", "shift"):
        m = model(kind)
        code = onnxscript.proto2python(m, function_name="main")
        name = f"c13_loop_swap_{kind}"
        path = os.path.join(tempfile.mkdtemp(), name + ".py")
        open(path, "w").write(code)
        spec = importlib.util.spec_from_file_location(name, path)
        mod = importlib.util.module_from_spec(spec)
        sys.modules[name] = mod
        try:
            spec.loader.exec_module(mod)
            back = mod.main.to_model_proto(ir_version=9)
        except Exception as e:  # noqa: BLE001
            print(f"{kind}: the exported script is refused: {type(e).__name__}: {str(e)[:200]}")
            bad += 1
            continue
        for n in (0, 1, 2, 3):
            feeds = [np.array(n, np.int64), np.array([1, 2], np.float32), np.array([10, 20], np.float32)]
            a, b = run(m, feeds), run(back, feeds)
            if not np.array_equal(a, b):
                upd = [ln.strip() for ln in code.splitlines() if ln.strip().startswith(("a_in", "b_in")) and "=" in ln]
                print(f"Loop whose body returns ({'b_in, a_in' if kind == 'swap' else 'a_in + b_in, a_in'}) for state (a_in, b_in), n={n}: original {a.tolist()}, "
                      f"after the round trip {b.tolist()}   [emitted state updates: {upd}]")
                bad += 1
    sys.exit(1 if bad else 0)


if __name__ == "__main__":
    main()
