"""Native replays for the optimizer properties: build a small ONNX model, run it on onnx.reference before and
after onnxscript.optimizer.optimize, compare."""
import sys

import numpy as np
import onnx
from onnx import TensorProto, helper, numpy_helper
from onnx.reference import ReferenceEvaluator


def vi(name, et, shape):
    return helper.make_tensor_value_info(name, et, shape)


def run(model, feeds):
    return ReferenceEvaluator(model).run(None, feeds)


def check(model, feeds_list, what):
    import onnxscript.optimizer
    onnx.checker.check_model(model)
    before = [run(model, f) for f in feeds_list]
    try:
        opt = onnxscript.optimizer.optimize(model)
    except Exception as e:  # noqa: BLE001
        print(f"{what}: the model is valid and executes, but optimize() raises {type(e).__name__}: {str(e)[:160]}")
        return 1
    bad = 0
    for f, b in zip(feeds_list, before):
        try:
            a = run(opt, f)
        except Exception as e:  # noqa: BLE001
            print(f"{what}: optimized model fails on {({k: v.tolist() for k, v in f.items()})}: {str(e)[:160]}")
            bad += 1
            continue
        for x, y in zip(b, a):
            if np.asarray(x).shape != np.asarray(y).shape or not np.array_equal(np.asarray(x), np.asarray(y), equal_nan=True):
                print(f"{what}: inputs { {k: v.tolist() for k, v in f.items()} }: original {np.asarray(x).tolist()} optimized {np.asarray(y).tolist()}")
                bad += 1
    return bad


def case_abs_add():
    g = helper.make_graph([
        helper.make_node("Shape", ["x"], ["s"], start=0, end=1),
        helper.make_node("Constant", [], ["c"], value=numpy_helper.from_array(np.array([-5], dtype=np.int64), "c")),
        helper.make_node("Add", ["s", "c"], ["a"]),
        helper.make_node("Abs", ["a"], ["y"]),
    ], "g", [vi("x", TensorProto.FLOAT, ["N", 2])], [vi("y", TensorProto.INT64, [1])])
    m = helper.make_model(g, opset_imports=[helper.make_opsetid("", 18)], ir_version=9)
    return check(m, [{"x": np.zeros((2, 2), np.float32)}, {"x": np.zeros((7, 2), np.float32)}], "Abs(Shape(x)[0:1] + (-5))")


def case_gather_dead_branch():
    then_g = helper.make_graph([
        helper.make_node("Shape", ["x"], ["sh"]),
        helper.make_node("Constant", [], ["i"], value=numpy_helper.from_array(np.array([7], dtype=np.int64), "i")),
        helper.make_node("Gather", ["sh", "i"], ["t"], axis=0),
    ], "then", [], [vi("t", TensorProto.INT64, [1])])
    else_g = helper.make_graph([
        helper.make_node("Constant", [], ["e"], value=numpy_helper.from_array(np.array([1], dtype=np.int64), "e")),
    ], "else", [], [vi("e", TensorProto.INT64, [1])])
    g = helper.make_graph([helper.make_node("If", ["c"], ["y"], then_branch=then_g, else_branch=else_g)], "g",
                          [vi("x", TensorProto.FLOAT, [2, 3]), vi("c", TensorProto.BOOL, [])], [vi("y", TensorProto.INT64, [1])])
    m = helper.make_model(g, opset_imports=[helper.make_opsetid("", 18)], ir_version=9)
    return check(m, [{"x": np.zeros((2, 3), np.float32), "c": np.array(False)}], "Gather(Shape(x), [7]) in a branch that is not taken")


def case_overridable_initializer():
    s_init = numpy_helper.from_array(np.array([2, 3], dtype=np.int64), "s")
    g = helper.make_graph([helper.make_node("Reshape", ["x", "s"], ["y"])], "g",
                          [vi("x", TensorProto.FLOAT, [2, 3]), vi("s", TensorProto.INT64, [2])], [vi("y", TensorProto.FLOAT, ["a", "b"])], [s_init])
    m = helper.make_model(g, opset_imports=[helper.make_opsetid("", 18)], ir_version=9)
    x = np.arange(6, dtype=np.float32).reshape(2, 3)
    return check(m, [{"x": x, "s": np.array([3, 2], dtype=np.int64)}], "Reshape(x[2,3], s) where s is an initializer AND a graph input, overridden with [3,2]")


def case_split_to_sequence():
    g = helper.make_graph([
        helper.make_node("SplitToSequence", ["x", "sp"], ["seq"], axis=0),
        helper.make_node("SequenceLength", ["seq"], ["y"]),
    ], "g", [vi("x", TensorProto.FLOAT, [6, 3]), vi("sp", TensorProto.INT64, [])], [vi("y", TensorProto.INT64, [])])
    m = helper.make_model(g, opset_imports=[helper.make_opsetid("", 18)], ir_version=9)
    return check(m, [{"x": np.zeros((6, 3), np.float32), "sp": np.array(2, dtype=np.int64)}], "SplitToSequence(x[6,3], sp) with sp a scalar graph input")


CASES = {"abs_add": case_abs_add, "gather": case_gather_dead_branch, "initializer": case_overridable_initializer,
         "split": case_split_to_sequence}


def main(names):
    bad = 0
    for n in names:
        bad += CASES[n]()
    sys.exit(1 if bad else 0)


# ---- rewrite rules (C05) ----------------------------------------------------------------------

def check_rewrite(model, feeds_list, what):
    import onnxscript.rewriter
    onnx.checker.check_model(model)
    before = [run(model, f) for f in feeds_list]
    try:
        new = onnxscript.rewriter.rewrite(model)
    except Exception as e:  # noqa: BLE001
        print(f"{what}: rewrite() raises {type(e).__name__}: {str(e)[:200]}")
        return 1
    bad = 0
    for f, b in zip(feeds_list, before):
        try:
            a = run(new, f)
        except Exception as e:  # noqa: BLE001
            print(f"{what}: rewritten model fails: {str(e)[:160]}")
            bad += 1
            continue
        for x, y in zip(b, a):
            x, y = np.asarray(x), np.asarray(y)
            if x.shape != y.shape or not np.array_equal(x, y, equal_nan=True):
                print(f"{what}: input { {k: v.tolist() for k, v in f.items()} }: original {x.tolist()} (shape {x.shape}) rewritten {y.tolist()} (shape {y.shape})")
                bad += 1
    return bad


def _c(name, arr):
    return helper.make_node("Constant", [], [name], value=numpy_helper.from_array(np.asarray(arr, dtype=np.float32), name))


def _model(nodes, inputs, outputs, value_info=()):
    g = helper.make_graph(nodes, "g", inputs, outputs, value_info=list(value_info))
    return helper.make_model(g, opset_imports=[helper.make_opsetid("", 18)], ir_version=9)


def case_clip_clip():
    m = _model([_c("l1", 0.0), _c("h1", 1.0), _c("l2", 2.0), _c("h2", 3.0), helper.make_node("Clip", ["x", "l1", "h1"], ["t"]),
                helper.make_node("Clip", ["t", "l2", "h2"], ["y"])], [vi("x", TensorProto.FLOAT, [3])], [vi("y", TensorProto.FLOAT, [3])],
               [vi("t", TensorProto.FLOAT, [3])])
    return check_rewrite(m, [{"x": np.array([-1.0, 0.5, 5.0], np.float32)}], "Clip(Clip(x,0,1),2,3)")


def case_relu_clip():
    m = _model([_c("l1", -3.0), _c("h1", -1.0), helper.make_node("Clip", ["x", "l1", "h1"], ["t"]), helper.make_node("Relu", ["t"], ["y"])],
               [vi("x", TensorProto.FLOAT, [3])], [vi("y", TensorProto.FLOAT, [3])])
    return check_rewrite(m, [{"x": np.array([-5.0, -2.0, 4.0], np.float32)}], "Relu(Clip(x,-3,-1))")


def case_min_max_shape():
    m = _model([_c("c", [[0.0]]), _c("d", [[1.0]]), helper.make_node("Max", ["x", "c"], ["t"]), helper.make_node("Min", ["t", "d"], ["y"])],
               [vi("x", TensorProto.FLOAT, [3])], [vi("y", TensorProto.FLOAT, [1, 3])])
    return check_rewrite(m, [{"x": np.array([-1.0, 0.5, 5.0], np.float32)}], "Min(Max(x[3], c[1,1]), d[1,1])")


def case_add_eps():
    m = _model([_c("e", 1e-9), helper.make_node("Add", ["x", "e"], ["y"])], [vi("x", TensorProto.FLOAT, [2])], [vi("y", TensorProto.FLOAT, [2])])
    return check_rewrite(m, [{"x": np.array([0.0, 1e-9], np.float32)}], "Add(x, 1e-9)")


def case_clip_no_type():
    g = helper.make_graph([_c("l1", 0.0), _c("h1", 4.0), _c("l2", 1.0), _c("h2", 3.0), helper.make_node("Neg", ["x"], ["n"]),
                           helper.make_node("Clip", ["n", "l1", "h1"], ["t"]), helper.make_node("Clip", ["t", "l2", "h2"], ["y"])],
                          "g", [vi("x", TensorProto.FLOAT, [3])], [vi("y", TensorProto.FLOAT, [3])])
    m = helper.make_model(g, opset_imports=[helper.make_opsetid("", 18)], ir_version=9)
    return check_rewrite(m, [{"x": np.array([-1.0, -2.5, -5.0], np.float32)}], "Clip(Clip(Neg(x),0,4),1,3) without value_info on the intermediate")


CASES.update({"clip_clip": case_clip_clip, "relu_clip": case_relu_clip, "min_max_shape": case_min_max_shape, "add_eps": case_add_eps,
              "clip_no_type": case_clip_no_type})


def case_expand_rank():
    import onnxscript.rewriter
    from onnxscript.rewriter.rules.common import _remove_expand_before_binary_op as mod
    shape = helper.make_node("Constant", [], ["s"], value=numpy_helper.from_array(np.array([1, 3], dtype=np.int64), "s"))
    m = _model([shape, helper.make_node("Expand", ["x", "s"], ["e"]), helper.make_node("Add", ["e", "y"], ["z"])],
               [vi("x", TensorProto.FLOAT, [3]), vi("y", TensorProto.FLOAT, [3])], [vi("z", TensorProto.FLOAT, [1, 3])])
    onnx.checker.check_model(m)
    f = {"x": np.ones(3, np.float32), "y": np.ones(3, np.float32)}
    before = run(m, f)[0]
    new = onnxscript.rewriter.rewrite(m, mod.expand_before_binary_op_rules)
    after = run(new, f)[0]
    if np.asarray(before).shape != np.asarray(after).shape:
        print(f"Add(Expand(x[3], [1,3]), y[3]): output shape {np.asarray(before).shape} becomes {np.asarray(after).shape} after the Expand is removed")
        return 1
    return 0


CASES["expand_rank"] = case_expand_rank


def case_nondeterministic():
    import onnxscript.optimizer
    c = numpy_helper.from_array(np.zeros((4,), dtype=np.float32), "c")
    g = helper.make_graph([helper.make_node("RandomUniformLike", ["c"], ["y"])], "g", [], [vi("y", TensorProto.FLOAT, [4])], [c])
    m = helper.make_model(g, opset_imports=[helper.make_opsetid("", 18)], ir_version=9)
    opt = onnxscript.optimizer.optimize(m)
    ops = [n.op_type for n in opt.graph.node]
    if "RandomUniformLike" not in ops:
        print(f"RandomUniformLike(constant) was evaluated at optimisation time: nodes after optimize = {ops}, initializers = {[i.name for i in opt.graph.initializer]}; "
              "the original model draws fresh values on every run, the optimized one returns one frozen sample")
        return 1
    return 0


CASES["nondeterministic"] = case_nondeterministic


def case_batchnorm():
    """BatchNormalization fused into Gemm / Conv, over attribute variants of the inbound node."""
    import itertools
    import onnxscript.rewriter as rw
    from onnxscript.rewriter.rules.common import _fuse_batchnorm as fb
    rng = np.random.default_rng(0)
    bad = 0

    def bn_inits(c):
        g, b, m = [rng.normal(size=(c,)).astype(np.float32) for _ in range(3)]
        v = rng.uniform(0.5, 1.5, size=(c,)).astype(np.float32)
        return [numpy_helper.from_array(a, n) for a, n in [(g, "g"), (b, "b"), (m, "m"), (v, "v")]]
    for beta, alpha, transB, has_bias, eps in itertools.product([None, 0.5, 0.0], [None, 2.0], [0, 1], [True, False], [None, 0.1]):
        Wm = rng.normal(size=((4, 3) if transB else (3, 4))).astype(np.float32)
        Bv = rng.normal(size=(4,)).astype(np.float32)
        attrs = {k: v for k, v in (("beta", beta), ("alpha", alpha)) if v is not None}
        if transB:
            attrs["transB"] = 1
        bn_attrs = {} if eps is None else {"epsilon": eps}
        inits = [numpy_helper.from_array(Wm, "W")] + ([numpy_helper.from_array(Bv, "B")] if has_bias else []) + bn_inits(4)
        g = helper.make_graph([
            helper.make_node("Gemm", ["x", "W"] + (["B"] if has_bias else []), ["y"], **attrs),
            helper.make_node("BatchNormalization", ["y", "g", "b", "m", "v"], ["z"], **bn_attrs),
        ], "g", [vi("x", TensorProto.FLOAT, [2, 3])], [vi("z", TensorProto.FLOAT, [2, 4])], inits)
        m = helper.make_model(g, opset_imports=[helper.make_opsetid("", 18)], ir_version=9)
        onnx.checker.check_model(m)
        x = rng.normal(size=(2, 3)).astype(np.float32)
        before = run(m, {"x": x})[0]
        new = rw.rewrite(m, pattern_rewrite_rules=fb.rules)
        after = run(new, {"x": x})[0]
        err = float(np.abs(before - after).max())
        if err > 1e-4:
            print(f"BatchNormalization(Gemm(x, W{', B' if has_bias else ''}; {attrs}); {bn_attrs}) -> {[n.op_type for n in new.graph.node]}: max |difference| = {err:.4f}")
            bad += 1
    for has_bias, eps in itertools.product([True, False], [None, 0.1]):
        Wc = rng.normal(size=(4, 3, 2, 2)).astype(np.float32)
        Bv = rng.normal(size=(4,)).astype(np.float32)
        bn_attrs = {} if eps is None else {"epsilon": eps}
        inits = [numpy_helper.from_array(Wc, "W")] + ([numpy_helper.from_array(Bv, "B")] if has_bias else []) + bn_inits(4)
        g = helper.make_graph([
            helper.make_node("Conv", ["x", "W"] + (["B"] if has_bias else []), ["y"]),
            helper.make_node("BatchNormalization", ["y", "g", "b", "m", "v"], ["z"], **bn_attrs),
        ], "g", [vi("x", TensorProto.FLOAT, [1, 3, 5, 5])], [vi("z", TensorProto.FLOAT, [1, 4, 4, 4])], inits)
        m = helper.make_model(g, opset_imports=[helper.make_opsetid("", 18)], ir_version=9)
        onnx.checker.check_model(m)
        x = rng.normal(size=(1, 3, 5, 5)).astype(np.float32)
        before = run(m, {"x": x})[0]
        new = rw.rewrite(m, pattern_rewrite_rules=fb.rules)
        after = run(new, {"x": x})[0]
        err = float(np.abs(before - after).max())
        if err > 1e-3:
            print(f"BatchNormalization(Conv(x, W{', B' if has_bias else ''}); {bn_attrs}) -> {[n.op_type for n in new.graph.node]}: max |difference| = {err:.4f}")
            bad += 1
    return bad


CASES["batchnorm"] = case_batchnorm


def case_attr_ref():
    """A node inside a model-local function whose attribute refers to the function's attribute parameter."""
    import onnx.parser
    import onnxscript.optimizer
    txt = """
<ir_version: 9, opset_import: ["" : 18, "local" : 1]>
agraph (float[3] x) => (float[3] y) {
   t = local.f <alpha = 0.5> (x)
   y = Add(x, t)
}
<opset_import: ["" : 18], domain: "local">
f <alpha> (a) => (b) {
   c = Constant <value_floats = [-1.0, -2.0, 3.0]> ()
   l = LeakyRelu <alpha: float = @alpha> (c)
   b = Add(a, l)
}
"""
    m = onnx.parser.parse_model(txt)
    onnx.checker.check_model(m)
    x = np.zeros(3, dtype=np.float32)
    before = run(m, {"x": x})[0]
    bad = 0
    for inline in (False, True):
        o = onnxscript.optimizer.optimize(onnx.parser.parse_model(txt), inline=inline)
        after = run(o, {"x": x})[0]
        if not np.allclose(before, after):
            print(f"optimize(inline={inline}): LeakyRelu<alpha=@alpha>(constant) inside function f called with alpha=0.5: original {before.tolist()} optimized {after.tolist()}")
            bad += 1
    return bad


CASES["attr_ref"] = case_attr_ref


def _override_case(nodes, x_shape, inits, override, out_shape, what):
    """`inits`: {name: default array} registered as initializers AND graph inputs; `override`: values fed instead."""
    import onnxscript.optimizer
    et = {np.dtype("float32"): TensorProto.FLOAT, np.dtype("int64"): TensorProto.INT64}
    ins = [vi("x", TensorProto.FLOAT, x_shape)] + [vi(n, et[a.dtype], list(a.shape)) for n, a in inits.items()]
    g = helper.make_graph(nodes, "g", ins, [vi("y", TensorProto.FLOAT, out_shape)], [numpy_helper.from_array(a, n) for n, a in inits.items()])
    m = helper.make_model(g, opset_imports=[helper.make_opsetid("", 18)], ir_version=9)
    onnx.checker.check_model(m)
    x = np.array([[-3.0, 0.5, 7.0], [1.0, 2.0, 3.0]], dtype=np.float32).reshape(x_shape)
    feeds = {"x": x, **override}
    before = run(m, feeds)[0]
    o = onnxscript.optimizer.optimize(m)
    try:
        after = run(o, feeds)[0]
    except Exception as e:  # noqa: BLE001
        print(f"{what}: optimized model fails when the default is overridden: {str(e)[:120]}")
        return 1
    if before.shape != after.shape or not np.array_equal(before, after):
        print(f"{what}: with the graph input overridden by {({k: v.tolist() for k, v in override.items()})} the original gives "
              f"shape {before.shape} {before.tolist()}, the optimized model (nodes {[n.op_type for n in o.graph.node]}) gives shape {after.shape} {after.tolist()}")
        return 1
    return 0


def case_ovr_expand():
    return _override_case([helper.make_node("Expand", ["x", "s"], ["y"])], [1, 6], {"s": np.array([1, 6], dtype=np.int64)},
                          {"s": np.array([4, 6], dtype=np.int64)}, ["p", "q"], "Expand(x[1,6], s), default s=[1,6]")


def case_ovr_minmax():
    bad = 0
    lo, hi = np.array(0.0, dtype=np.float32), np.array(1.0, dtype=np.float32)
    bad += _override_case([helper.make_node("Max", ["x", "lo"], ["t"]), helper.make_node("Min", ["t", "hi"], ["y"])], [2, 3],
                          {"lo": lo, "hi": hi}, {"lo": np.array(-5.0, dtype=np.float32), "hi": np.array(5.0, dtype=np.float32)}, [2, 3],
                          "Min(Max(x, lo), hi), defaults lo=0, hi=1")
    bad += _override_case([helper.make_node("Min", ["x", "a"], ["t"]), helper.make_node("Min", ["t", "b"], ["y"])], [2, 3],
                          {"a": hi, "b": hi}, {"a": np.array(5.0, dtype=np.float32), "b": np.array(6.0, dtype=np.float32)}, [2, 3],
                          "Min(Min(x, a), b), defaults a=b=1")
    return bad


def case_ovr_addzero():
    return _override_case([helper.make_node("Add", ["x", "z"], ["y"])], [2, 3], {"z": np.array(0.0, dtype=np.float32)},
                          {"z": np.array(10.0, dtype=np.float32)}, [2, 3], "Add(x, z), default z=0")


CASES.update({"ovr_expand": case_ovr_expand, "ovr_minmax": case_ovr_minmax, "ovr_addzero": case_ovr_addzero})


def case_scatter_reduction():
    idx = numpy_helper.from_array(np.array([[0], [1], [2]], dtype=np.int64), "idx")
    g = helper.make_graph([helper.make_node("ScatterND", ["d", "idx", "u"], ["y"], reduction="add")], "g",
                          [vi("d", TensorProto.FLOAT, [3, 2]), vi("u", TensorProto.FLOAT, [3, 2])], [vi("y", TensorProto.FLOAT, [3, 2])], [idx])
    m = helper.make_model(g, opset_imports=[helper.make_opsetid("", 18)], ir_version=9)
    return check(m, [{"d": np.ones((3, 2), np.float32), "u": np.full((3, 2), 5.0, np.float32)}], "ScatterND(data, [[0],[1],[2]], updates, reduction='add')")


def case_scatter_symbolic_dim():
    idx = numpy_helper.from_array(np.array([[0], [1]], dtype=np.int64), "idx")
    g = helper.make_graph([helper.make_node("ScatterND", ["d", "idx", "u"], ["y"])], "g",
                          [vi("d", TensorProto.FLOAT, ["N", 3]), vi("u", TensorProto.FLOAT, ["N", 3])], [vi("y", TensorProto.FLOAT, ["N", 3])], [idx])
    m = helper.make_model(g, opset_imports=[helper.make_opsetid("", 18)], ir_version=9)
    return check(m, [{"d": np.ones((2, 3), np.float32), "u": np.full((2, 3), 5.0, np.float32)}], "ScatterND(data[N,3], [[0],[1]], updates[N,3])")


CASES.update({"scatter_reduction": case_scatter_reduction, "scatter_symbolic_dim": case_scatter_symbolic_dim})


def case_materialize_reshape_zero():
    import onnxscript.optimizer
    g = helper.make_graph([helper.make_node("Reshape", ["x", "s"], ["y"])], "g",
                          [vi("x", TensorProto.FLOAT, [0, "N"]), vi("s", TensorProto.INT64, [2])], [vi("y", TensorProto.FLOAT, [0, "M"])])
    m = helper.make_model(g, opset_imports=[helper.make_opsetid("", 18)], ir_version=9)
    onnx.checker.check_model(m)
    feeds = {"x": np.zeros((0, 6), np.float32), "s": np.array([0, 3], dtype=np.int64)}
    import onnxruntime as ort

    def ort_run(mm):
        sess = ort.InferenceSession(mm.SerializeToString(), providers=["CPUExecutionProvider"])
        return sess.run(None, {k: v for k, v in feeds.items() if k in {i.name for i in mm.graph.input}})[0]
    before = ort_run(m)
    o = onnxscript.optimizer.optimize(m)
    try:
        after = ort_run(o)
    except Exception as e:  # noqa: BLE001
        print(f"Reshape(x[0,N], s) with output annotated [0,M]: original gives shape {before.shape}; the optimized model fails: {str(e).splitlines()[0][:200]}")
        return 1
    return 0 if before.shape == after.shape else 1


CASES["materialize_reshape_zero"] = case_materialize_reshape_zero


def case_hardswish_tolerance():
    import onnxruntime as ort
    import onnxscript.rewriter as rw
    from onnxscript.rewriter.rules.common import _fuse_hardswish as hs
    g = helper.make_graph([helper.make_node("HardSigmoid", ["x"], ["h"], alpha=0.166668, beta=0.5), helper.make_node("Mul", ["h", "x"], ["y"])], "g",
                          [vi("x", TensorProto.FLOAT, [3])], [vi("y", TensorProto.FLOAT, [3])])
    m = helper.make_model(g, opset_imports=[helper.make_opsetid("", 18)], ir_version=9)
    onnx.checker.check_model(m)
    x = np.array([1.0, 2.0, -2.0], dtype=np.float32)

    def ort_run(mm):
        return ort.InferenceSession(mm.SerializeToString(), providers=["CPUExecutionProvider"]).run(None, {"x": x})[0]
    before = ort_run(m)
    o = rw.rewrite(m, pattern_rewrite_rules=hs.fuse_hardswish_rules())
    after = ort_run(o)
    if [n.op_type for n in o.graph.node] == ["HardSwish"] and not np.array_equal(before, after):
        print(f"Mul(HardSigmoid<alpha=0.166668, beta=0.5>(x), x) is fused into HardSwish (alpha within numpy.isclose of 1/6): x={x.tolist()} gives "
              f"{before.tolist()} before and {after.tolist()} after")
        return 1
    return 0


CASES["hardswish_tolerance"] = case_hardswish_tolerance


def case_ovr_bias():
    w = np.ones((4, 3), dtype=np.float32)
    return _override_case([helper.make_node("Gemm", ["x", "w", "b"], ["y"], transB=1)], [2, 3],
                          {"w": w, "b": np.zeros((4,), dtype=np.float32)}, {"w": w, "b": np.full((4,), 5.0, dtype=np.float32)}, [2, 4],
                          "Gemm(x, w, b), default b = 0")


CASES["ovr_bias"] = case_ovr_bias


def case_ovr_unsqueeze():
    return _override_case([helper.make_node("Unsqueeze", ["x", "a1"], ["t"]), helper.make_node("Unsqueeze", ["t", "a2"], ["y"])], [2, 3],
                          {"a1": np.array([0], dtype=np.int64), "a2": np.array([0], dtype=np.int64)},
                          {"a1": np.array([0], dtype=np.int64), "a2": np.array([3], dtype=np.int64)}, ["a", "b", "c", "d"],
                          "Unsqueeze(Unsqueeze(x, a1), a2), defaults a1 = a2 = [0]")


def case_ovr_slice():
    return _override_case([helper.make_node("Slice", ["x", "st", "en", "ax", "sp"], ["y"])], [2, 3],
                          {"st": np.array([0], dtype=np.int64), "en": np.array([2], dtype=np.int64), "ax": np.array([0], dtype=np.int64), "sp": np.array([1], dtype=np.int64)},
                          {"st": np.array([0], dtype=np.int64), "en": np.array([1], dtype=np.int64), "ax": np.array([0], dtype=np.int64), "sp": np.array([1], dtype=np.int64)},
                          ["a", 3], "Slice(x[2,3], 0, en, 0, 1), default en = 2")


def case_ovr_scatter():
    g = helper.make_graph([helper.make_node("ScatterND", ["x", "idx", "u"], ["y"])], "g",
                          [vi("x", TensorProto.FLOAT, [2, 3]), vi("u", TensorProto.FLOAT, [2, 3]), vi("idx", TensorProto.INT64, [2, 1])], [vi("y", TensorProto.FLOAT, [2, 3])],
                          [numpy_helper.from_array(np.array([[0], [1]], dtype=np.int64), "idx")])
    m = helper.make_model(g, opset_imports=[helper.make_opsetid("", 18)], ir_version=9)
    return check(m, [{"x": np.zeros((2, 3), np.float32), "u": np.arange(6, dtype=np.float32).reshape(2, 3), "idx": np.array([[1], [0]], dtype=np.int64)}],
                 "ScatterND(x, idx, u) with idx an overridable initializer (default [[0],[1]]) fed [[1],[0]]")


CASES.update({"ovr_unsqueeze": case_ovr_unsqueeze, "ovr_slice": case_ovr_slice, "ovr_scatter": case_ovr_scatter})


def case_cast_cast():
    """Cast(Cast(x, FLOAT), FLOAT16|BFLOAT16) on float64 inputs just above every tie point of the 16-bit format."""
    import ml_dtypes
    bad = 0
    h = np.arange(0x0400, 0x7BFF, dtype=np.uint16).view(np.float16).astype(np.float64)  # positive normal float16 values
    mid16 = (h[:-1] + h[1:]) / 2
    b = (np.arange(0x0080, 0x7F7F, dtype=np.uint16).astype(np.uint32) << 16).view(np.float32).astype(np.float64)  # positive normal bfloat16
    midb = (b[:-1] + b[1:]) / 2
    for to, mids, what in ((TensorProto.FLOAT16, mid16, "FLOAT16"), (TensorProto.BFLOAT16, midb, "BFLOAT16")):
        xs = np.concatenate([np.nextafter(mids, np.inf), np.nextafter(mids, -np.inf), -np.nextafter(mids, np.inf)])
        for typed in (True, False):
            src = "x" if typed else "n"
            nodes = ([] if typed else [helper.make_node("Neg", ["x"], ["n"])]) + [
                helper.make_node("Cast", [src], ["m"], to=TensorProto.FLOAT), helper.make_node("Cast", ["m"], ["y"], to=to)]
            g = helper.make_graph(nodes, "g", [vi("x", TensorProto.DOUBLE, [len(xs)])], [vi("y", to, [len(xs)])])
            m = helper.make_model(g, opset_imports=[helper.make_opsetid("", 18)], ir_version=9)
            import onnxscript.rewriter
            new = onnxscript.rewriter.rewrite(m)
            a0 = np.asarray(run(m, {"x": xs})[0]).astype(np.float64)
            a1 = np.asarray(run(new, {"x": xs})[0]).astype(np.float64)
            diff = np.nonzero(~((a0 == a1) | (np.isnan(a0) & np.isnan(a1))))[0]
            if len(diff):
                i = diff[0]
                print(f"Cast(Cast({'x' if typed else 'Neg(x), element type not recorded'}: float64, to=FLOAT), to={what}): {len(diff)} of {len(xs)} inputs differ, "
                      f"e.g. x={xs[i]!r}: original {a0[i]!r} rewritten {a1[i]!r} (ops after rewrite: {[n.op_type for n in new.graph.node]})")
                bad += 1
    return bad


CASES["cast_cast"] = case_cast_cast


def _ort_shape(m, x):
    import onnxruntime as ort
    so = ort.SessionOptions()
    so.log_severity_level = 4
    try:
        s = ort.InferenceSession(m.SerializeToString(), so, providers=["CPUExecutionProvider"])
        return tuple(s.run(None, {"x": x})[0].shape)
    except Exception as e:  # noqa: BLE001
        return "raises: " + str(e).split("Status Message:")[-1][-140:].strip()


def case_flatten_zero():
    """Flatten -> Reshape with dims of size 0 (onnxruntime: the onnx reference Flatten itself cannot handle size-0 tensors)."""
    import onnxscript.rewriter
    bad = 0
    for shape, axis, feed in ((["N", "M"], 1, (0, 5)), ([0, "M", 0], 2, (0, 1, 0)), ([2, 3, 0], 2, (2, 3, 0)), (["N", "M"], 1, (2, 5))):
        g = helper.make_graph([helper.make_node("Flatten", ["x"], ["y"], axis=axis)], "g", [vi("x", TensorProto.FLOAT, shape)], [vi("y", TensorProto.FLOAT, None)])
        m = helper.make_model(g, opset_imports=[helper.make_opsetid("", 18)], ir_version=9)
        new = onnxscript.rewriter.rewrite(m)
        x = np.zeros(feed, np.float32)
        a, b = _ort_shape(m, x), _ort_shape(new, x)
        if a != b:
            consts = [numpy_helper.to_array(i).tolist() for i in new.graph.initializer]
            print(f"Flatten(x{shape}, axis={axis}) rewritten to {[n.op_type for n in new.graph.node]} {consts}; x of shape {feed}: original output shape {a}, rewritten {b}")
            bad += 1
    return bad


CASES["flatten_zero"] = case_flatten_zero


def case_expand_unknown_dims():
    """Add(Expand(x[?], s), y[1]) with the Expand output annotated [?]: exported rule set expand_before_binary_op_rules."""
    import onnx_ir as ir
    from onnxscript.rewriter.rules.common import _remove_expand_before_binary_op as R
    bad = 0
    for annotate in ("expand output", "binary output"):
        vinfo = [vi("e", TensorProto.FLOAT, [None])] if annotate == "expand output" else []
        out = vi("z", TensorProto.FLOAT, [None] if annotate == "binary output" else None)
        g = helper.make_graph([helper.make_node("Expand", ["x", "s"], ["e"]), helper.make_node("Add", ["e", "y"], ["z"])], "g",
                              [vi("x", TensorProto.FLOAT, [None]), vi("s", TensorProto.INT64, [1]), vi("y", TensorProto.FLOAT, [1])], [out], value_info=vinfo)
        m = helper.make_model(g, opset_imports=[helper.make_opsetid("", 18)], ir_version=9)
        feeds = {"x": np.ones((1,), np.float32), "s": np.array([5], np.int64), "y": np.ones((1,), np.float32)}
        a = run(m, feeds)[0]
        mm = ir.serde.deserialize_model(m)
        n = R.expand_before_binary_op_rules.apply_to_model(mm)
        b = run(ir.serde.serialize_model(mm), feeds)[0]
        if np.asarray(a).shape != np.asarray(b).shape:
            print(f"Add(Expand(x[?], s), y[1]) with only the {annotate} annotated [?]: rule applied {n}x; x of shape (1,), s=[5]: original shape {np.asarray(a).shape}, rewritten {np.asarray(b).shape}")
            bad += 1
    return bad


CASES["expand_unknown_dims"] = case_expand_unknown_dims


def case_pipeline_names():
    """optimize() of an If whose then-branch owns an initializer `w` and whose else-branch computes a value `w`:
    lifting the initializer makes the two collide unless names are fixed afterwards."""
    import onnx.parser
    import onnxscript.optimizer as optimizer
    m = onnx.parser.parse_model("""
<ir_version: 8, opset_import: ["" : 18]>
agraph (float[2] x, bool c) => (float[2] y)
{
  y = If (c) <
    then_branch = g1 () => (float[2] y1) <float[2] w = {1.0, 2.0}> { y1 = Add(x, w) },
    else_branch = g2 () => (float[2] y2) { w = Neg(x)  y2 = Relu(w) }
  >
}
""")
    onnx.checker.check_model(m)
    try:
        new = optimizer.optimize(m)
        onnx.checker.check_model(new)
    except Exception as e:  # noqa: BLE001
        print(f"optimize() of a valid If model (then-branch initializer w, else-branch value w): {type(e).__name__}: {str(e)[:240]}")
        return 1
    bad = 0
    for c in (True, False):
        f = {"x": np.array([1.0, -2.0], np.float32), "c": np.array(c)}
        a, b = run(m, f)[0], run(new, f)[0]
        if not np.array_equal(a, b):
            print(f"c={c}: original {a.tolist()} optimized {b.tolist()}")
            bad += 1
    return bad


CASES["pipeline_names"] = case_pipeline_names


def case_literal_rank():
    """pattern literals (x*1, x+0, x/1 ...) against one-element constants of rank 1 and 2 with a rank-0 x: broadcasting changes the shape"""
    bad = 0
    for opn, c in (("Mul", [1.0]), ("Add", [0.0]), ("Div", [1.0]), ("Mul", [[1.0]]), ("Sub", [0.0])):
        m = _model([_c("c", c), helper.make_node(opn, ["x", "c"], ["y"])], [vi("x", TensorProto.FLOAT, [])], [vi("y", TensorProto.FLOAT, None)])
        bad += check_rewrite(m, [{"x": np.array(3.0, np.float32)}], f"{opn}(x: scalar, c={c})")
    return bad


CASES["literal_rank"] = case_literal_rank


def case_scatter_permuted():
    bad = 0
    for rows in ([[3], [2], [1], [0]], [[1], [2], [3], [0]], [[0], [0], [1], [2]]):
        idx = numpy_helper.from_array(np.array(rows, dtype=np.int64), "idx")
        g = helper.make_graph([helper.make_node("ScatterND", ["d", "idx", "u"], ["y"])], "g",
                              [vi("d", TensorProto.FLOAT, [4, 3]), vi("u", TensorProto.FLOAT, [4, 3])], [vi("y", TensorProto.FLOAT, [4, 3])], [idx])
        m = helper.make_model(g, opset_imports=[helper.make_opsetid("", 18)], ir_version=9)
        bad += check(m, [{"d": np.zeros((4, 3), np.float32), "u": np.arange(12, dtype=np.float32).reshape(4, 3)}], f"ScatterND(data[4,3], {rows}, updates[4,3])")
    return bad


CASES["scatter_permuted"] = case_scatter_permuted


def case_scatter_dynamic_shape_attrs():
    """ScatterND over Range(0, Gather(Shape(data, start, end), axis)) with Shape attributes the rule's pattern may leave open."""
    import onnx_ir as ir
    from onnxscript.rewriter.rules.common import _redundant_scatter_nd as R

    def c(name, arr):
        return helper.make_node("Constant", [], [name], value=numpy_helper.from_array(np.asarray(arr, dtype=np.int64), name))
    bad = 0
    for sattrs, axis, dshape, tshape, ushape in (({"start": 0, "end": -1}, -1, (3, 2, 3), (3, 4), (2, 4)), ({"start": 1}, 0, (3, 2), (3, 2), (2, 2)),
                                                 ({"start": 0}, 0, (3, 2), (3, 2), (3, 2))):
        nodes = [helper.make_node("Shape", ["data"], ["shape"], **sattrs), c("axis", axis), helper.make_node("Gather", ["shape", "axis"], ["dim"], axis=0),
                 c("zero", 0), c("one", 1), helper.make_node("Range", ["zero", "dim", "one"], ["rng"]), c("m1", [-1]),
                 helper.make_node("Unsqueeze", ["rng", "m1"], ["idx"]), helper.make_node("ScatterND", ["t", "idx", "updates"], ["y"], reduction="none")]
        g = helper.make_graph(nodes, "g", [vi("data", TensorProto.FLOAT, list(dshape)), vi("t", TensorProto.FLOAT, list(tshape)), vi("updates", TensorProto.FLOAT, list(ushape))],
                              [vi("y", TensorProto.FLOAT, list(tshape))])
        m = helper.make_model(g, opset_imports=[helper.make_opsetid("", 18)], ir_version=9)
        f = {"data": np.zeros(dshape, np.float32), "t": np.zeros(tshape, np.float32), "updates": np.ones(ushape, np.float32)}
        a = np.asarray(run(m, f)[0])
        mm = ir.serde.deserialize_model(m)
        n = R.rules.apply_to_model(mm)
        b = np.asarray(run(ir.serde.serialize_model(mm), f)[0])
        if a.shape != b.shape or not np.array_equal(a, b):
            print(f"ScatterND(t{list(tshape)}, Range(0, Gather(Shape(data{list(dshape)}, {sattrs}), {axis})), updates{list(ushape)}): rule applied {n}x; original output shape {a.shape}, rewritten {b.shape}")
            bad += 1
    return bad


CASES["scatter_dynamic_shape_attrs"] = case_scatter_dynamic_shape_attrs


def case_scatter_dynamic_axis_range():
    import onnx_ir as ir
    from onnxscript.rewriter.rules.common import _redundant_scatter_nd as R

    def c(name, arr):
        return helper.make_node("Constant", [], [name], value=numpy_helper.from_array(np.asarray(arr, dtype=np.int64), name))
    nodes = [helper.make_node("Shape", ["data"], ["shape"], start=0), c("axis", -3), helper.make_node("Gather", ["shape", "axis"], ["dim"], axis=0),
             c("zero", 0), c("one", 1), helper.make_node("Range", ["zero", "dim", "one"], ["rng"]), c("m1", [-1]),
             helper.make_node("Unsqueeze", ["rng", "m1"], ["idx"]), helper.make_node("ScatterND", ["t", "idx", "updates"], ["y"], reduction="none")]
    g = helper.make_graph(nodes, "g", [vi("data", TensorProto.FLOAT, [3]), vi("t", TensorProto.FLOAT, [3, 4]), vi("updates", TensorProto.FLOAT, [3, 4])], [vi("y", TensorProto.FLOAT, [3, 4])])
    m = helper.make_model(g, opset_imports=[helper.make_opsetid("", 18)], ir_version=9)
    onnx.checker.check_model(m)
    try:
        R.rules.apply_to_model(ir.serde.deserialize_model(m))
    except Exception as e:  # noqa: BLE001
        print(f"ScatterND over Range(0, Gather(Shape(data[3]), -3)): applying the rule set raises {type(e).__name__}: {e}")
        return 1
    return 0


CASES["scatter_dynamic_axis_range"] = case_scatter_dynamic_axis_range


def case_conv_auto_pad_dilations():
    import onnx_ir as ir
    from onnxscript.rewriter.rules.common import _fuse_pad_into_conv as R
    bad = 0
    for ap in ("SAME_UPPER", "SAME_LOWER"):
        for dil, strides, size in (([2, 2], [1, 1], 6), ([3, 1], [2, 1], 7), ([1, 1], [2, 2], 5)):
            w = numpy_helper.from_array(np.ones((1, 1, 3, 3), np.float32), "w")
            out = [-(-size // strides[0]), -(-size // strides[1])]
            g = helper.make_graph([helper.make_node("Conv", ["x", "w"], ["y"], auto_pad=ap, dilations=dil, strides=strides, kernel_shape=[3, 3])], "g",
                                  [vi("x", TensorProto.FLOAT, [1, 1, size, size])], [vi("y", TensorProto.FLOAT, [1, 1] + out)], [w])
            m = helper.make_model(g, opset_imports=[helper.make_opsetid("", 18)], ir_version=9)
            onnx.checker.check_model(m, full_check=True)
            f = {"x": np.arange(size * size, dtype=np.float32).reshape(1, 1, size, size)}
            a = np.asarray(run(m, f)[0])
            mm = ir.serde.deserialize_model(m)
            n = R.normalize_pad_format_conv_rule.apply_to_model(mm)
            b = np.asarray(run(ir.serde.serialize_model(mm), f)[0])
            if a.shape != b.shape or not np.array_equal(a, b):
                pads = [list(nd.attributes["pads"].as_ints()) for nd in mm.graph if "pads" in nd.attributes]
                print(f"Conv<auto_pad={ap}, dilations={dil}, strides={strides}, kernel 3x3> on {size}x{size}: rule applied {n}x with pads {pads}; output shape {a.shape} -> {b.shape}")
                bad += 1
    return bad


CASES["conv_auto_pad_dilations"] = case_conv_auto_pad_dilations


def case_softmax_old_opset():
    """constant Softmax / LogSoftmax / Hardmax in an opset-11 model (2D-coercion semantics), compared on onnxruntime"""
    import onnxruntime as ort
    from onnxscript import optimizer

    def ortrun(m, f):
        so = ort.SessionOptions()
        so.graph_optimization_level = ort.GraphOptimizationLevel.ORT_DISABLE_ALL
        so.log_severity_level = 4
        return ort.InferenceSession(m.SerializeToString(), so, providers=["CPUExecutionProvider"]).run(None, f)
    bad = 0
    for opn in ("Softmax", "LogSoftmax", "Hardmax"):
        c = numpy_helper.from_array(np.arange(24, dtype=np.float32).reshape(2, 3, 4) / 10, "c")
        g = helper.make_graph([helper.make_node(opn, ["c"], ["s"]), helper.make_node("Add", ["x", "s"], ["y"])], "g",
                              [vi("x", TensorProto.FLOAT, [2, 3, 4])], [vi("y", TensorProto.FLOAT, [2, 3, 4])], [c])
        m = helper.make_model(g, opset_imports=[helper.make_opsetid("", 11)], ir_version=7)
        onnx.checker.check_model(m)
        f = {"x": np.zeros((2, 3, 4), np.float32)}
        a = ortrun(m, f)[0]
        new = optimizer.optimize(m)
        b = ortrun(new, f)[0]
        if not np.allclose(a, b, atol=1e-6):
            print(f"opset 11 {opn}(constant[2,3,4]) folded: nodes after {[n.op_type for n in new.graph.node]}; max |difference| {float(np.abs(a - b).max()):.4f}")
            bad += 1
    return bad


CASES["softmax_old_opset"] = case_softmax_old_opset


def case_matmul_add_gemm_bias():
    import onnx_ir as ir
    from onnxscript.rewriter.rules.common import _matmul_add_to_gemm as R
    bad = 0
    for ashape, bshape, cshape, ta, tb in (([1, 4], [4, 3], [5, 3], False, False), ([1, 4], [4, 3], [2, 1, 3], False, False), ([4, 1], [3, 4], [5, 3], True, True),
                                           ([2, 4], [4, 3], [3], False, False), ([2, 4], [4, 3], [2, 1], False, False)):
        nodes, an, bn = [], "a", "b"
        if ta:
            nodes.append(helper.make_node("Transpose", ["a"], ["at"], perm=[1, 0])); an = "at"
        if tb:
            nodes.append(helper.make_node("Transpose", ["b"], ["bt"], perm=[1, 0])); bn = "bt"
        nodes += [helper.make_node("MatMul", [an, bn], ["m"]), helper.make_node("Add", ["m", "c"], ["y"])]
        g = helper.make_graph(nodes, "g", [vi("a", TensorProto.FLOAT, ashape), vi("b", TensorProto.FLOAT, bshape), vi("c", TensorProto.FLOAT, cshape)], [vi("y", TensorProto.FLOAT, None)])
        m = helper.make_model(g, opset_imports=[helper.make_opsetid("", 18)], ir_version=9)
        rng = np.random.default_rng(3)
        f = {"a": rng.random(ashape).astype(np.float32), "b": rng.random(bshape).astype(np.float32), "c": rng.random(cshape).astype(np.float32)}
        a0 = np.asarray(run(m, f)[0])
        mm = ir.serde.deserialize_model(m)
        n = R.rules.apply_to_model(mm)
        try:
            b0 = np.asarray(run(ir.serde.serialize_model(mm), f)[0])
            okv = a0.shape == b0.shape and np.allclose(a0, b0, rtol=1e-5, atol=1e-6)
            msg = f"output shape {a0.shape} -> {b0.shape}" + ("" if a0.shape != b0.shape else ", values differ")
        except Exception as e:  # noqa: BLE001
            okv, msg = False, f"rewritten model fails: {str(e)[:120]}"
        if not okv:
            print(f"Add(MatMul(a{ashape}{'^T' if ta else ''}, b{bshape}{'^T' if tb else ''}), c{cshape}): rule applied {n}x ({[x.op_type for x in mm.graph]}); {msg}")
            bad += 1
    return bad


CASES["matmul_add_gemm_bias"] = case_matmul_add_gemm_bias


def case_reshape_matmul_reshape():
    import onnx_ir as ir
    from onnxscript.rewriter.rules.common import _broadcast_to_matmul as R

    def c(name, arr):
        return helper.make_node("Constant", [], [name], value=numpy_helper.from_array(np.asarray(arr, dtype=np.int64), name))
    bad = 0
    for sa0, sa, sb0, sb, sc in (([2], [2], [2, 2], [2, 2, 1], [2]), ([2], [1, 2], [2, 3], [3, 2, 1], [3]), ([2, 3], [2, 3], [3, 2], [3, 2], [2, 2])):
        nodes = [c("sa", sa), c("sb", sb), c("sc", sc), helper.make_node("Reshape", ["a", "sa"], ["ra"]), helper.make_node("Reshape", ["b", "sb"], ["rb"]),
                 helper.make_node("MatMul", ["ra", "rb"], ["m"]), helper.make_node("Reshape", ["m", "sc"], ["y"])]
        g = helper.make_graph(nodes, "g", [vi("a", TensorProto.FLOAT, sa0), vi("b", TensorProto.FLOAT, sb0)], [vi("y", TensorProto.FLOAT, sc)])
        m = helper.make_model(g, opset_imports=[helper.make_opsetid("", 18)], ir_version=9)
        onnx.checker.check_model(m, full_check=True)
        rng = np.random.default_rng(1)
        f = {"a": rng.integers(1, 9, size=sa0).astype(np.float32), "b": rng.integers(1, 9, size=sb0).astype(np.float32)}
        a0 = np.asarray(run(m, f)[0])
        mm = ir.serde.deserialize_model(m)
        n = R.rules.apply_to_model(mm)
        b0 = np.asarray(run(ir.serde.serialize_model(mm), f)[0])
        if a0.shape != b0.shape or not np.array_equal(a0, b0):
            print(f"Reshape(MatMul(Reshape(a{sa0}, {sa}), Reshape(b{sb0}, {sb})), {sc}): rule applied {n}x -> {[x.op_type for x in mm.graph if x.op_type != 'Constant']}; "
                  f"a={f['a'].tolist()} b={f['b'].tolist()}: original {a0.tolist()} rewritten {b0.tolist()}")
            bad += 1
    return bad


CASES["reshape_matmul_reshape"] = case_reshape_matmul_reshape


def case_cast_constant_of_shape():
    import warnings
    import onnx_ir as ir
    from onnxscript.rewriter.rules.common import _cast_constant_of_shape as R
    bad = 0
    for val, vt, to in ((300, np.int64, TensorProto.INT8), (-1, np.int64, TensorProto.UINT8), (70000, np.int32, TensorProto.INT16), (2.7, np.float32, TensorProto.INT64),
                        (-2.7, np.float32, TensorProto.INT32), (1e10, np.float32, TensorProto.FLOAT16), (3.0, np.float32, TensorProto.BOOL), (16777217, np.int64, TensorProto.FLOAT)):
        t = numpy_helper.from_array(np.array([val], dtype=vt), "v")
        g = helper.make_graph([helper.make_node("ConstantOfShape", ["s"], ["c"], value=t), helper.make_node("Cast", ["c"], ["y"], to=to)], "g",
                              [vi("s", TensorProto.INT64, [1])], [vi("y", to, None)])
        m = helper.make_model(g, opset_imports=[helper.make_opsetid("", 18)], ir_version=9)
        f = {"s": np.array([2], np.int64)}
        with warnings.catch_warnings():
            warnings.simplefilter("ignore")
            a = np.asarray(run(m, f)[0])
            mm = ir.serde.deserialize_model(m)
            try:
                n = R.rules.apply_to_model(mm)
                b = np.asarray(run(ir.serde.serialize_model(mm), f)[0])
            except Exception as e:  # noqa: BLE001
                print(f"Cast(ConstantOfShape(value={vt.__name__} {val}), to={TensorProto.DataType.Name(to)}): the rewriter raises {type(e).__name__}: {str(e)[:100]} (the original yields {a.tolist()})")
                bad += 1
                continue
        if a.dtype != b.dtype or not np.array_equal(a, b, equal_nan=True):
            print(f"Cast(ConstantOfShape(value={vt.__name__} {val}), to={TensorProto.DataType.Name(to)}): original {a.tolist()} ({a.dtype}) rewritten {b.tolist()} ({b.dtype})")
            bad += 1
    return bad


CASES["cast_constant_of_shape"] = case_cast_constant_of_shape


def case_conv_affine_shapes():
    import onnx_ir as ir
    import onnxruntime as ort
    from onnxscript.rewriter.rules.common import _fuse_conv_affine as R

    def t(name, arr):
        return numpy_helper.from_array(np.asarray(arr, dtype=np.float32), name)

    def ortrun(m, f):
        so = ort.SessionOptions()
        so.log_severity_level = 4
        return ort.InferenceSession(m.SerializeToString(), so, providers=["CPUExecutionProvider"]).run(None, f)[0]
    bad = 0
    for sshape in ([], [1], [1, 1, 1, 1], [1, 1, 1, 1, 1]):
        for which in ("conv_affine", "affine_conv"):
            w = t("w", np.arange(2 * 3 * 1 * 2).reshape(2, 3, 1, 2) / 10)
            inits = [w, t("b", [0.5, -0.5]), t("scale", np.full(sshape, 2.0)), t("offset", np.full(sshape, 0.25))]
            if which == "conv_affine":
                nodes = [helper.make_node("Conv", ["x", "w", "b"], ["c"]), helper.make_node("Mul", ["c", "scale"], ["m"]), helper.make_node("Add", ["m", "offset"], ["y"])]
            else:
                nodes = [helper.make_node("Mul", ["x", "scale"], ["m"]), helper.make_node("Add", ["m", "offset"], ["a"]), helper.make_node("Conv", ["a", "w", "b"], ["y"], pads=[0, 0, 0, 0])]
            g = helper.make_graph(nodes, "g", [vi("x", TensorProto.FLOAT, [1, 3, 4, 4])], [vi("y", TensorProto.FLOAT, None)], inits)
            m = helper.make_model(g, opset_imports=[helper.make_opsetid("", 18)], ir_version=9)
            f = {"x": np.random.default_rng(0).random((1, 3, 4, 4)).astype(np.float32)}
            try:
                a0 = ortrun(m, f)
            except Exception:  # noqa: BLE001  (the original itself is not a valid model: nothing to preserve)
                continue
            mm = ir.serde.deserialize_model(m)
            rule = R.conv_affine_fusion_rule if which == "conv_affine" else R.affine_conv_fusion_rule
            n = rule.apply_to_model(mm)
            try:
                b0 = ortrun(ir.serde.serialize_model(mm), f)
                okv = a0.shape == b0.shape and np.allclose(a0, b0, rtol=1e-5, atol=1e-5)
                msg = f"output {a0.shape} -> {b0.shape}"
            except Exception as e:  # noqa: BLE001
                okv, msg = False, "onnxruntime rejects the rewritten model: " + str(e).split("Status Message:")[-1][:120]
            if not okv:
                print(f"{which} with scale/offset of shape {sshape}: rule applied {n}x; {msg}")
                bad += 1
    return bad


CASES["conv_affine_shapes"] = case_conv_affine_shapes


def case_ovr_pad_conv():
    """Conv(Pad(x, pads)) with `pads` an initializer that is also a graph input (default: pad H and W by 1)"""
    import onnx_ir as ir
    from onnxscript.rewriter.rules.common import _fuse_pad_into_conv as R
    w = numpy_helper.from_array(np.ones((1, 1, 3, 3), np.float32), "w")
    pads = numpy_helper.from_array(np.array([0, 0, 1, 1, 0, 0, 1, 1], np.int64), "pads")
    g = helper.make_graph([helper.make_node("Pad", ["x", "pads"], ["p"]), helper.make_node("Conv", ["p", "w"], ["y"])], "g",
                          [vi("x", TensorProto.FLOAT, [1, 1, 4, 4]), vi("pads", TensorProto.INT64, [8])], [vi("y", TensorProto.FLOAT, None)], [w, pads])
    m = helper.make_model(g, opset_imports=[helper.make_opsetid("", 18)], ir_version=9)
    f = {"x": np.ones((1, 1, 4, 4), np.float32), "pads": np.array([0, 0, 2, 2, 0, 0, 2, 2], np.int64)}
    a = np.asarray(run(m, f)[0])
    mm = ir.serde.deserialize_model(m)
    n = R.rules.apply_to_model(mm)
    b = np.asarray(run(ir.serde.serialize_model(mm), f)[0])
    if a.shape != b.shape or not np.array_equal(a, b):
        print(f"Conv(Pad(x, pads)) with pads an overridable initializer (default 1, fed 2): rule applied {n}x ({[z.op_type for z in mm.graph]}); original output {a.shape}, rewritten {b.shape}")
        return 1
    return 0


CASES["ovr_pad_conv"] = case_ovr_pad_conv


def case_expand_search():
    """Bounded search replay for the any-rank obligations of _remove_expand_before_binary_op: every x / y / target of rank <= 3
    (extents {0, 1, 2, 3} up to rank 2, {1, 2} at rank 3; about 5*10^4 models), in the three annotation modes (constant target; dynamic target with the Expand
    output annotated; dynamic target with the binary-op output annotated), with static / named / unknown dims.  The real rule set
    is applied and the result shape is compared with numpy's (rank included)."""
    import itertools
    import onnx_ir as ir
    from onnxscript.rewriter.rules.common import _remove_expand_before_binary_op as R
    bad = 0
    shapes = [s for r in range(0, 3) for s in itertools.product((0, 1, 2, 3), repeat=r)] + list(itertools.product((1, 2), repeat=3))
    names = {0: "Z", 1: "one", 2: "N", 3: "M"}
    n_models = 0
    for xs in shapes:
        for ts in shapes:
            try:
                es = np.broadcast_shapes(xs, ts)
            except ValueError:
                continue
            if len(ts) > 3:
                continue
            for ys in shapes:
                try:
                    out = np.broadcast_shapes(es, ys)
                except ValueError:
                    continue
                if len(xs) + len(ys) + len(ts) > 6:
                    continue
                for mode in ("constant", "expand_out", "binary_out"):
                    for sym in ("static", "named", "unknown"):
                        def ann(shape):
                            if sym == "static":
                                return list(shape)
                            if sym == "named":
                                return [names[d] if d != 1 else 1 for d in shape]
                            return [None if d != 1 else 1 for d in shape]
                        nodes, inputs, vinfo = [], [vi("x", TensorProto.FLOAT, ann(xs)), vi("y", TensorProto.FLOAT, ann(ys))], []
                        if mode == "constant":
                            nodes.append(helper.make_node("Constant", [], ["s"], value=numpy_helper.from_array(np.array(ts, dtype=np.int64), "s")))
                        else:
                            inputs.append(vi("s", TensorProto.INT64, [len(ts)]))
                        nodes += [helper.make_node("Expand", ["x", "s"], ["e"]), helper.make_node("Add", ["e", "y"], ["z"])]
                        if mode == "expand_out":
                            vinfo.append(vi("e", TensorProto.FLOAT, ann(es)))
                        zout = vi("z", TensorProto.FLOAT, ann(out) if mode == "binary_out" else None)
                        g = helper.make_graph(nodes, "g", inputs, [zout], value_info=vinfo)
                        m = helper.make_model(g, opset_imports=[helper.make_opsetid("", 18)], ir_version=9)
                        mm = ir.serde.deserialize_model(m)
                        n_models += 1
                        try:
                            n = R.expand_before_binary_op_rules.apply_to_model(mm)
                        except Exception as e:  # noqa: BLE001
                            print(f"x{list(xs)} target{list(ts)} y{list(ys)} ({mode}, {sym}): rule raises {type(e).__name__}: {str(e)[:120]}")
                            bad += 1
                            continue
                        if not n:
                            continue
                        try:
                            after = np.broadcast_shapes(xs, ys)
                        except ValueError:
                            after = "invalid"
                        if after != out:
                            if bad < 8:
                                print(f"Add(Expand(x{ann(xs)}, {list(ts)} [{mode}]), y{ann(ys)}): rule applied {n}x; run-time extents x{list(xs)} y{list(ys)}: "
                                      f"output shape {out} before, {after} after the Expand is removed")
                            bad += 1
    print(f"expand_search: {n_models} models, {bad} differ")
    return bad


CASES["expand_search"] = case_expand_search


def case_shape_search():
    """Bounded search replay for the any-rank Shape obligations: Shape(x, start, end) for ranks 0..3, every start / end in
    {absent, -5..5}, static and symbolic dims; the sliced shape feeds a Gather-free consumer (graph output) so that what optimize()
    folds or records is observable.  Compared on onnxruntime (graph optimizations disabled) at two bindings of the symbolic dims."""
    import onnxruntime as ort
    import onnxscript.optimizer

    def run(model, feeds):   # onnxruntime, optimizations off: onnx.reference does not clamp `end` below -rank (it returns shape[0:rank+end])
        so = ort.SessionOptions()
        so.graph_optimization_level = ort.GraphOptimizationLevel.ORT_DISABLE_ALL
        so.log_severity_level = 3
        return ort.InferenceSession(model.SerializeToString(), so, providers=["CPUExecutionProvider"]).run(None, feeds)
    bad = 0
    n = 0
    for rank in range(0, 4):
        for sym in (False, True):
            dims = [("N" if (sym and i % 2 == 0) else 2 + i) for i in range(rank)]
            for start in [None] + list(range(-5, 6)):
                for end in [None] + list(range(-5, 6)):
                    kw = {}
                    if start is not None:
                        kw["start"] = start
                    if end is not None:
                        kw["end"] = end
                    nodes = [helper.make_node("Shape", ["x"], ["s"], **kw),
                             helper.make_node("Constant", [], ["one"], value=numpy_helper.from_array(np.array([1], dtype=np.int64), "one")),
                             helper.make_node("Concat", ["s", "one"], ["z"], axis=0)]
                    g = helper.make_graph(nodes, "g", [vi("x", TensorProto.FLOAT, dims)], [vi("z", TensorProto.INT64, [None])])
                    m = helper.make_model(g, opset_imports=[helper.make_opsetid("", 18)], ir_version=9)
                    n += 1
                    feeds = [{"x": np.zeros([d if isinstance(d, int) else b for d in dims], np.float32)} for b in (1, 4)]
                    try:
                        before = [run(m, f)[0] for f in feeds]
                    except Exception:  # noqa: BLE001
                        continue
                    try:
                        opt = onnxscript.optimizer.optimize(m)
                        after = [run(opt, f)[0] for f in feeds]
                    except Exception as e:  # noqa: BLE001
                        print(f"Shape(x{dims}, start={start}, end={end}): optimize / optimized model raises {type(e).__name__}: {str(e)[:120]}")
                        bad += 1
                        continue
                    for b, a, f in zip(before, after, feeds):
                        if np.asarray(b).shape != np.asarray(a).shape or not np.array_equal(b, a):
                            if bad < 8:
                                print(f"Concat(Shape(x{dims}, start={start}, end={end}), [1]) on x of shape {f['x'].shape}: {np.asarray(b).tolist()} before, {np.asarray(a).tolist()} after optimize()")
                            bad += 1
    print(f"shape_search: {n} models, {bad} differ")
    return bad


CASES["shape_search"] = case_shape_search


def case_reshape_abs_search():
    """Bounded search replay for the any-rank reshape / expand / abs obligations: the target of Reshape / Expand is Shape(y)
    (a Shape sym value), Abs is applied to Shape(y) + c; ranks 0..3, static / named / unknown dims, run at several bindings."""
    import itertools
    import onnxscript.optimizer
    bad = 0
    n = 0
    kinds = [2, 3, "N", "M", None]
    for rank in range(0, 4):
        for xd in itertools.product(kinds, repeat=rank):
            for yd in itertools.product(kinds, repeat=rank):
                if rank == 3 and (xd[0] != yd[0]):
                    continue
                for which in ("Reshape", "Expand"):
                    nodes = [helper.make_node("Shape", ["y"], ["s"]), helper.make_node(which, ["x", "s"], ["z"])]
                    g = helper.make_graph(nodes, "g", [vi("x", TensorProto.FLOAT, list(xd)), vi("y", TensorProto.FLOAT, list(yd))],
                                          [vi("z", TensorProto.FLOAT, None)])
                    m = helper.make_model(g, opset_imports=[helper.make_opsetid("", 18)], ir_version=9)
                    n += 1
                    opt = onnxscript.optimizer.optimize(m)
                    if [nd.op_type for nd in opt.graph.node] == [nd.op_type for nd in m.graph.node]:
                        continue
                    # bindings: named dims equal by name; unknown dims may differ between x and y
                    for nb, mb, ub in ((2, 3, 1), (3, 2, 6), (1, 1, 1), (6, 1, 2)):
                        def conc(ds, unknown):
                            return [d if isinstance(d, int) else nb if d == "N" else mb if d == "M" else unknown for d in ds]
                        xs, ys = conc(xd, ub), conc(yd, 6 // ub if ub else 1)
                        f = {"x": np.arange(int(np.prod(xs)), dtype=np.float32).reshape(xs), "y": np.zeros(ys, np.float32)}
                        try:
                            b = run(m, f)[0]
                        except Exception:  # noqa: BLE001
                            continue
                        try:
                            a = run(opt, f)[0]
                        except Exception as e:  # noqa: BLE001
                            print(f"{which}(x{list(xd)}, Shape(y{list(yd)})): optimized model fails for x{xs} y{ys}: {str(e)[:100]}")
                            bad += 1
                            continue
                        if np.asarray(a).shape != np.asarray(b).shape or not np.array_equal(a, b):
                            if bad < 8:
                                print(f"{which}(x{list(xd)}, Shape(y{list(yd)})) at x{xs} y{ys}: output shape {np.asarray(b).shape} before, {np.asarray(a).shape} after optimize()")
                            bad += 1
    for c in (-3, -1, 0, 2):
        for yd in ([2], ["N"], [None]):
            nodes = [helper.make_node("Shape", ["y"], ["s"]),
                     helper.make_node("Constant", [], ["c"], value=numpy_helper.from_array(np.array([c], dtype=np.int64), "c")),
                     helper.make_node("Add", ["s", "c"], ["t"]), helper.make_node("Abs", ["t"], ["z"])]
            g = helper.make_graph(nodes, "g", [vi("y", TensorProto.FLOAT, yd)], [vi("z", TensorProto.INT64, [1])])
            m = helper.make_model(g, opset_imports=[helper.make_opsetid("", 18)], ir_version=9)
            n += 1
            opt = onnxscript.optimizer.optimize(m)
            for ext in (1, 2, 5):
                if isinstance(yd[0], int) and ext != yd[0]:
                    continue
                f = {"y": np.zeros([ext], np.float32)}
                b, a = run(m, f)[0], run(opt, f)[0]
                if not np.array_equal(a, b):
                    print(f"Abs(Shape(y{yd}) + {c}) at y[{ext}]: {b.tolist()} before, {a.tolist()} after optimize()")
                    bad += 1
    print(f"reshape_abs_search: {n} models, {bad} differ")
    return bad


CASES["reshape_abs_search"] = case_reshape_abs_search


def case_slice_unknown_dims():
    """Slice(x[?,4], rows 1:3) whose output is annotated [?,4] as well: two unknown dims are not 'the same'; the Slice must stay."""
    import onnxscript.rewriter
    s = lambda n, v: helper.make_node("Constant", [], [n], value=numpy_helper.from_array(np.array(v, dtype=np.int64), n))
    nodes = [s("st", [1]), s("en", [3]), s("ax", [0]), s("sp", [1]), helper.make_node("Slice", ["x", "st", "en", "ax", "sp"], ["y"])]
    g = helper.make_graph(nodes, "g", [vi("x", TensorProto.FLOAT, [None, 4])], [vi("y", TensorProto.FLOAT, [None, 4])])
    m = helper.make_model(g, opset_imports=[helper.make_opsetid("", 18)], ir_version=9)
    x = np.arange(20, dtype=np.float32).reshape(5, 4)
    return check_rewrite(m, [{"x": x}], "Slice(x[?,4], 1:3 on axis 0) with output annotated [?,4]")


CASES["slice_unknown_dims"] = case_slice_unknown_dims


def case_commuted_literal_tolerance():
    """Add(c, x) / Mul(c, x) with the constant FIRST (matched by the commuted clone of the pattern x + 0 / x * 1): values within 1e-5 but not
    within the documented tolerance (rel 1e-5 of the literal, abs 1e-8) must not be treated as 0 / 1"""
    bad = 0
    for op, c in (("Add", 5e-6), ("Add", -3e-6), ("Mul", 1.0 + 5e-4)):
        nodes = [helper.make_node("Constant", [], ["c"], value=numpy_helper.from_array(np.array(c, dtype=np.float32), "c")), helper.make_node(op, ["c", "x"], ["y"])]
        g = helper.make_graph(nodes, "g", [vi("x", TensorProto.FLOAT, [3])], [vi("y", TensorProto.FLOAT, [3])])
        m = helper.make_model(g, opset_imports=[helper.make_opsetid("", 18)], ir_version=9)
        bad += check_rewrite(m, [{"x": np.array([0.0, 1e-5, 2.0], np.float32)}], f"{op}({c}, x) with the constant as FIRST operand")
    return bad


CASES["commuted_literal_tolerance"] = case_commuted_literal_tolerance


def case_materialize_reshape_literal_zero():
    """Reshape(data[N,0], runtime target [-1,5]) with the output annotated [0,5]: the materialised [0,5] must be read literally
    (allowzero=1); read as 'copy dim 0 of the input' it asks for [N,5] and fails for every N != 0."""
    import onnxruntime as ort
    import onnxscript.optimizer
    g = helper.make_graph([helper.make_node("Reshape", ["x", "s"], ["y"])], "g",
                          [vi("x", TensorProto.FLOAT, ["N", 0]), vi("s", TensorProto.INT64, [2])], [vi("y", TensorProto.FLOAT, [0, 5])])
    m = helper.make_model(g, opset_imports=[helper.make_opsetid("", 18)], ir_version=9)
    onnx.checker.check_model(m)
    o = onnxscript.optimizer.optimize(m)
    bad = 0
    for n in (0, 3):
        feeds = {"x": np.zeros((n, 0), np.float32), "s": np.array([-1, 5], dtype=np.int64)}

        def ort_run(mm):
            so = ort.SessionOptions()
            so.log_severity_level = 3
            sess = ort.InferenceSession(mm.SerializeToString(), so, providers=["CPUExecutionProvider"])
            return sess.run(None, {k: v for k, v in feeds.items() if k in {i.name for i in mm.graph.input}})[0]
        before = ort_run(m)
        try:
            after = ort_run(o)
        except Exception as e:  # noqa: BLE001
            print(f"Reshape(x[N,0], s=[-1,5]) with output annotated [0,5], N={n}: original gives shape {before.shape}; the optimized model fails: {str(e).splitlines()[0][:160]}")
            bad += 1
            continue
        if before.shape != after.shape:
            print(f"Reshape(x[N,0], s=[-1,5]) N={n}: shape {before.shape} before, {after.shape} after optimize()")
            bad += 1
    return bad


CASES["materialize_reshape_literal_zero"] = case_materialize_reshape_literal_zero


def case_materialize_reshape_search():
    """bounded search on the real optimizer + onnxruntime: Reshape(x, s) with a dynamic target s, annotated data / output shapes that share
    symbols; every binding of the symbols to {0, 1, 2, 3} for which the original model runs must run on the optimized model with the same shape"""
    import itertools
    import onnxruntime as ort
    import onnxscript.optimizer
    ort.set_default_logger_severity(4)
    dims = [2, 4, "B", "T", "S"]
    bad = tried = 0
    shapes = [list(p) for r in (2, 3) for p in itertools.product(dims, repeat=r)]
    pairs = [(d, o) for d in shapes for o in shapes if len(d) == len(o) and sum(isinstance(x, str) for x in o) in (1, 2) and set(x for x in o if isinstance(x, str)) & set(x for x in d if isinstance(x, str))]
    for dshape, oshape in pairs[::7]:
        g = helper.make_graph([helper.make_node("Reshape", ["x", "s"], ["y"])], "g",
                              [vi("x", TensorProto.FLOAT, dshape), vi("s", TensorProto.INT64, [len(oshape)])], [vi("y", TensorProto.FLOAT, oshape)])
        m = helper.make_model(g, opset_imports=[helper.make_opsetid("", 18)], ir_version=9)
        try:
            o = onnxscript.optimizer.optimize(m)
        except Exception as e:  # noqa: BLE001
            print(f"Reshape(x{dshape}, s) -> y{oshape}: optimize() raises {type(e).__name__}: {str(e)[:120]}")
            bad += 1
            continue
        if [n.op_type for n in o.graph.node] == ["Reshape"] and any(i.name == "s" for i in o.graph.input) and o.graph.node[0].input[1] == "s":
            continue   # not rewritten
        syms = sorted({x for x in dshape + oshape if isinstance(x, str)})
        for vals in itertools.product((0, 1, 2, 3), repeat=len(syms)):
            rho = dict(zip(syms, vals))
            dv = [rho.get(x, x) for x in dshape]
            ov = [rho.get(x, x) for x in oshape]
            if int(np.prod(dv)) != int(np.prod(ov)):
                continue
            feeds = {"x": np.zeros(dv, np.float32), "s": np.array(ov, dtype=np.int64)}
            try:
                before = ort.InferenceSession(m.SerializeToString(), providers=["CPUExecutionProvider"]).run(None, feeds)[0]
            except Exception:  # noqa: BLE001
                continue   # the original does not accept this input
            tried += 1
            try:
                names = {i.name for i in o.graph.input}
                after = ort.InferenceSession(o.SerializeToString(), providers=["CPUExecutionProvider"]).run(None, {k: v for k, v in feeds.items() if k in names})[0]
            except Exception as e:  # noqa: BLE001
                print(f"Reshape(x{dshape}, s) -> y{oshape} with {rho}: original gives shape {before.shape}; the optimized model "
                      f"({[(n.op_type, [a.i for a in n.attribute if a.name == 'allowzero']) for n in o.graph.node]}) fails: {str(e).splitlines()[0][:160]}")
                bad += 1
                break
            if before.shape != after.shape:
                print(f"Reshape(x{dshape}, s) -> y{oshape} with {rho}: original shape {before.shape}, optimized {after.shape}")
                bad += 1
                break
        if bad >= 3:
            break
    print(f"materialize_reshape_search: {tried} runs compared")
    return bad


CASES["materialize_reshape_search"] = case_materialize_reshape_search


def case_split_to_sequence_keepdims():
    """SplitToSequence(x, split, keepdims=0) with a 1-D split: ONNX ignores keepdims when split is given (operator documentation;
    onnxruntime and onnx.reference agree) — the element keeps the split axis"""
    import onnxruntime as ort
    import onnxscript.optimizer
    ort.set_default_logger_severity(4)
    bad = 0
    for split, x_shape in (([1, 1], [2, 3]), ([2, 2], [4, 3]), ([1, 3], [4, 3])):
        sp = np.array(split, dtype=np.int64)
        g = helper.make_graph([
            helper.make_node("SplitToSequence", ["x", "sp"], ["seq"], axis=0, keepdims=0),
            helper.make_node("Constant", [], ["i"], value=numpy_helper.from_array(np.array(0, dtype=np.int64), "i")),
            helper.make_node("SequenceAt", ["seq", "i"], ["y"])], "g", [vi("x", TensorProto.FLOAT, x_shape)],
            [helper.make_value_info("y", helper.make_tensor_type_proto(TensorProto.FLOAT, None))], [numpy_helper.from_array(sp, "sp")])
        m = helper.make_model(g, opset_imports=[helper.make_opsetid("", 18)], ir_version=9)
        x = np.arange(np.prod(x_shape), dtype=np.float32).reshape(x_shape)
        a = ort.InferenceSession(m.SerializeToString(), providers=["CPUExecutionProvider"]).run(None, {"x": x})[0]
        r = np.asarray(ReferenceEvaluator(m).run(None, {"x": x})[0])
        o = onnxscript.optimizer.optimize(m)
        try:
            b = ort.InferenceSession(o.SerializeToString(), providers=["CPUExecutionProvider"]).run(None, {"x": x})[0].shape
        except Exception as e:  # noqa: BLE001
            b = "fails to load/run: " + str(e).splitlines()[0][:120]
        if a.shape != b:
            print(f"SequenceAt(SplitToSequence(x{x_shape}, {split}, axis=0, keepdims=0), 0): onnxruntime {a.shape}, onnx.reference {r.shape}; after optimize(): {b}")
            bad += 1
    return bad


CASES["split_to_sequence_keepdims"] = case_split_to_sequence_keepdims


def case_slices_split():
    """SlicesSplit at the level of the rule's own check() (the shipped matcher cannot bind this two-output pattern yet — upstream issue 1642 —
    so the rule is exercised directly on real ir values): when check() accepts, Split(x, num_outputs=2, axis=-1) must give what the two
    Slices give (onnxruntime)."""
    import onnx_ir as ir
    import onnxruntime as ort
    from onnxscript.rewriter.rules.common import _basic_rules
    ort.set_default_logger_severity(4)
    bad = 0

    def const(name, v, graph=None):
        val = ir.Value(name=name, type=ir.TensorType(ir.DataType.INT64), shape=ir.Shape([len(v)]), const_value=ir.tensor(np.array(v, dtype=np.int64), name=name))
        return val
    for d, overridable in ((1, False), (3, False), (4, False), (5, False), (4, True)):
        h = d // 2
        x = ir.Value(name="x", type=ir.TensorType(ir.DataType.FLOAT), shape=ir.Shape([2, d]))
        vals = {n: const(n, v) for n, v in (("b0", [0]), ("e0", [h]), ("b1", [h]), ("e1", [d]), ("ax0", [1]), ("ax1", [1]))}
        s0 = ir.node("Slice", [x, vals["b0"], vals["e0"], vals["ax0"]]); s1 = ir.node("Slice", [x, vals["b1"], vals["e1"], vals["ax1"]])
        s0.outputs[0].name, s1.outputs[0].name = "y0", "y1"
        inputs = [x] + ([vals["e0"]] if overridable else [])
        g = ir.Graph(inputs, [s0.outputs[0], s1.outputs[0]], nodes=[s0, s1], initializers=list(vals.values()), opset_imports={"": 18}, name="g")
        model = ir.Model(g, ir_version=9)
        rule = _basic_rules.SlicesSplit()
        try:
            accepted = bool(rule.check(None, x, vals["b0"], vals["e0"], vals["ax0"], vals["b1"], vals["e1"], vals["ax1"]))
        except Exception as e:  # noqa: BLE001
            print(f"SlicesSplit.check raises {type(e).__name__}: {e}")
            bad += 1
            continue
        if not accepted:
            continue
        proto = ir.serde.serialize_model(model)
        xv = np.arange(2 * d, dtype=np.float32).reshape(2, d)
        feeds = {"x": xv}
        if overridable:
            feeds["e0"] = np.array([1], dtype=np.int64)
        before = ort.InferenceSession(proto.SerializeToString(), providers=["CPUExecutionProvider"]).run(None, feeds)
        sg = helper.make_graph([helper.make_node("Split", ["x"], ["y0", "y1"], axis=-1, num_outputs=2)], "g", [vi("x", TensorProto.FLOAT, [2, d])],
                               [vi("y0", TensorProto.FLOAT, None), vi("y1", TensorProto.FLOAT, None)])
        sm = helper.make_model(sg, opset_imports=[helper.make_opsetid("", 18)], ir_version=9)
        try:
            after = ort.InferenceSession(sm.SerializeToString(), providers=["CPUExecutionProvider"]).run(None, {"x": xv})
        except Exception as e:  # noqa: BLE001
            print(f"SlicesSplit.check accepts Slice(x, 0:{h}), Slice(x, {h}:{d}) on x[2,{d}]: the slices give shapes {[a.shape for a in before]}, "
                  f"the replacement Split(x, num_outputs=2, axis=-1) fails: {str(e).splitlines()[0][-90:]}")
            bad += 1
            continue
        if [a.shape for a in before] != [a.shape for a in after] or not all(np.array_equal(a, b) for a, b in zip(before, after)):
            what = f"with the end of the first slice an initializer that is also a graph input, fed [1]" if overridable else f"x[2,{d}]"
            print(f"SlicesSplit.check accepts Slice(x, 0:{h}), Slice(x, {h}:{d}) on the last axis ({what}): the slices give shapes "
                  f"{[a.shape for a in before]}, the replacement Split(x, num_outputs=2, axis=-1) gives {[a.shape for a in after]}")
            bad += 1
    return bad


CASES["slices_split"] = case_slices_split


def case_two_ifs_same_name():
    """two If nodes with a constant condition whose branches both compute a foldable value named `t` (names are local to a subgraph):
    the model is valid and runs; optimize() must return a model that computes the same"""
    def branch(k, out):
        return helper.make_graph([
            helper.make_node("Constant", [], ["c"], value=numpy_helper.from_array(np.array([float(k)], dtype=np.float32), "c")),
            helper.make_node("Add", ["c", "c"], ["t"]),
            helper.make_node("Add", ["x", "t"], [out])], "b", [], [vi(out, TensorProto.FLOAT, [1])])
    nodes = [helper.make_node("Constant", [], ["cond"], value=numpy_helper.from_array(np.array(True), "cond"))]
    for i in (0, 1):
        nodes.append(helper.make_node("If", ["cond"], [f"y{i}"], then_branch=branch(i + 1, f"o{i}"), else_branch=branch(i + 5, f"o{i}")))
    nodes.append(helper.make_node("Add", ["y0", "y1"], ["y"]))
    g = helper.make_graph(nodes, "g", [vi("x", TensorProto.FLOAT, [1])], [vi("y", TensorProto.FLOAT, [1])])
    m = helper.make_model(g, opset_imports=[helper.make_opsetid("", 18)], ir_version=9)
    return check(m, [{"x": np.array([1.0], np.float32)}], "two constant-condition If nodes whose branches both fold a value named 't'")


CASES["two_ifs_same_name"] = case_two_ifs_same_name


def case_initializer_shape_inference():
    """the Reshape target is an initializer that is ALSO a graph input (overridable default); a downstream Shape must not be folded from the
    default: fed another target, the original and the optimized model must agree"""
    s0 = numpy_helper.from_array(np.array([2, 3], dtype=np.int64), "s")
    g = helper.make_graph([helper.make_node("Reshape", ["x", "s"], ["y"]), helper.make_node("Shape", ["y"], ["z"])], "g",
                          [vi("x", TensorProto.FLOAT, [6]), vi("s", TensorProto.INT64, [2])], [vi("z", TensorProto.INT64, [2])], [s0])
    m = helper.make_model(g, opset_imports=[helper.make_opsetid("", 18)], ir_version=9)
    x = np.arange(6, dtype=np.float32)
    return check(m, [{"x": x}, {"x": x, "s": np.array([3, 2], dtype=np.int64)}, {"x": x, "s": np.array([1, 6], dtype=np.int64)}],
                 "Shape(Reshape(x[6], s)) with s an initializer [2,3] that is also a graph input")


CASES["initializer_shape_inference"] = case_initializer_shape_inference
