"""Native replays for the optimizer properties: build a small ONNX model, run it on onnx.reference before and
after onnxscript.optimizer.optimize, compare."""
import sys

import numpy as np
import onnx
from onnx import TensorProto, helper, numpy_helper
from onnx.reference import ReferenceEvaluator


def vi(name, et, shape):
    return helper.make_tensor_value_info(name, et, shape)


def run(model, feeds):
    return ReferenceEvaluator(model).run(None, feeds)


def check(model, feeds_list, what):
    import onnxscript.optimizer
    onnx.checker.check_model(model)
    before = [run(model, f) for f in feeds_list]
    try:
        opt = onnxscript.optimizer.optimize(model)
    except Exception as e:  # noqa: BLE001
        print(f"{what}: the model is valid and executes, but optimize() raises {type(e).__name__}: {str(e)[:160]}")
        return 1
    bad = 0
    for f, b in zip(feeds_list, before):
        try:
            a = run(opt, f)
        except Exception as e:  # noqa: BLE001
            print(f"{what}: optimized model fails on {({k: v.tolist() for k, v in f.items()})}: {str(e)[:160]}")
            bad += 1
            continue
        for x, y in zip(b, a):
            if np.asarray(x).shape != np.asarray(y).shape or not np.array_equal(np.asarray(x), np.asarray(y), equal_nan=True):
                print(f"{what}: inputs { {k: v.tolist() for k, v in f.items()} }: original {np.asarray(x).tolist()} optimized {np.asarray(y).tolist()}")
                bad += 1
    return bad


def case_abs_add():
    g = helper.make_graph([
        helper.make_node("Shape", ["x"], ["s"], start=0, end=1),
        helper.make_node("Constant", [], ["c"], value=numpy_helper.from_array(np.array([-5], dtype=np.int64), "c")),
        helper.make_node("Add", ["s", "c"], ["a"]),
        helper.make_node("Abs", ["a"], ["y"]),
    ], "g", [vi("x", TensorProto.FLOAT, ["N", 2])], [vi("y", TensorProto.INT64, [1])])
    m = helper.make_model(g, opset_imports=[helper.make_opsetid("", 18)], ir_version=9)
    return check(m, [{"x": np.zeros((2, 2), np.float32)}, {"x": np.zeros((7, 2), np.float32)}], "Abs(Shape(x)[0:1] + (-5))")


def case_gather_dead_branch():
    then_g = helper.make_graph([
        helper.make_node("Shape", ["x"], ["sh"]),
        helper.make_node("Constant", [], ["i"], value=numpy_helper.from_array(np.array([7], dtype=np.int64), "i")),
        helper.make_node("Gather", ["sh", "i"], ["t"], axis=0),
    ], "then", [], [vi("t", TensorProto.INT64, [1])])
    else_g = helper.make_graph([
        helper.make_node("Constant", [], ["e"], value=numpy_helper.from_array(np.array([1], dtype=np.int64), "e")),
    ], "else", [], [vi("e", TensorProto.INT64, [1])])
    g = helper.make_graph([helper.make_node("If", ["c"], ["y"], then_branch=then_g, else_branch=else_g)], "g",
                          [vi("x", TensorProto.FLOAT, [2, 3]), vi("c", TensorProto.BOOL, [])], [vi("y", TensorProto.INT64, [1])])
    m = helper.make_model(g, opset_imports=[helper.make_opsetid("", 18)], ir_version=9)
    return check(m, [{"x": np.zeros((2, 3), np.float32), "c": np.array(False)}], "Gather(Shape(x), [7]) in a branch that is not taken")


def case_overridable_initializer():
    s_init = numpy_helper.from_array(np.array([2, 3], dtype=np.int64), "s")
    g = helper.make_graph([helper.make_node("Reshape", ["x", "s"], ["y"])], "g",
                          [vi("x", TensorProto.FLOAT, [2, 3]), vi("s", TensorProto.INT64, [2])], [vi("y", TensorProto.FLOAT, None)], [s_init])
    m = helper.make_model(g, opset_imports=[helper.make_opsetid("", 18)], ir_version=9)
    x = np.arange(6, dtype=np.float32).reshape(2, 3)
    return check(m, [{"x": x, "s": np.array([3, 2], dtype=np.int64)}], "Reshape(x[2,3], s) where s is an initializer AND a graph input, overridden with [3,2]")


def case_split_to_sequence():
    g = helper.make_graph([
        helper.make_node("SplitToSequence", ["x", "sp"], ["seq"], axis=0),
        helper.make_node("SequenceLength", ["seq"], ["y"]),
    ], "g", [vi("x", TensorProto.FLOAT, [6, 3]), vi("sp", TensorProto.INT64, [])], [vi("y", TensorProto.INT64, [])])
    m = helper.make_model(g, opset_imports=[helper.make_opsetid("", 18)], ir_version=9)
    return check(m, [{"x": np.zeros((6, 3), np.float32), "sp": np.array(2, dtype=np.int64)}], "SplitToSequence(x[6,3], sp) with sp a scalar graph input")


CASES = {"abs_add": case_abs_add, "gather": case_gather_dead_branch, "initializer": case_overridable_initializer,
         "split": case_split_to_sequence}


def main(names):
    bad = 0
    for n in names:
        bad += CASES[n]()
    sys.exit(1 if bad else 0)
