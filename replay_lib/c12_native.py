"""Native replay for the any-length cast_inputs obligations (C12): real operator signatures, argument lists mixing literals and typed
tensors, eager front end (autocast.dynamic_cast_inputs) and builder front end (GraphBuilder.op.*) against an independent `promote`."""
import itertools
import sys

import numpy as np
import onnx


def spec_promote(schema, args_types):
    """args_types: list of numpy dtype (typed tensor) or a python literal; -> expected dtype per literal position (None = default)"""
    formals = list(schema.inputs)
    tvs = []
    for i in range(len(args_types)):
        if i < len(formals):
            f = formals[i]
        elif formals and formals[-1].option == onnx.defs.OpSchema.FormalParameterOption.Variadic:
            f = formals[-1]
            if not f.is_homogeneous:
                tvs.append(None)
                continue
        else:
            return None
        tvs.append(f.type_str if "(" not in f.type_str else None)
    out = []
    for i, a in enumerate(args_types):
        if isinstance(a, np.dtype):
            out.append(a)
            continue
        sib = {args_types[j] for j in range(len(args_types)) if isinstance(args_types[j], np.dtype) and tvs[j] is not None and tvs[j] == tvs[i]}
        if len(sib) == 1:
            out.append(next(iter(sib)))
        elif not sib:
            out.append(np.dtype(np.bool_) if isinstance(a, bool) else np.dtype(np.int64) if isinstance(a, int) else np.dtype(np.float32))
        else:
            out.append("ambiguous")
    return out


def main():
    import onnxscript
    from onnxscript import tensor
    from onnxscript._internal import autocast
    bad = 0
    n = 0
    ops = [("Add", 2), ("Max", 4), ("Sum", 3), ("Where", 3), ("Clip", 3), ("Concat", 3), ("Pow", 2), ("Mul", 2), ("Min", 3)]
    kinds = [np.dtype(np.float16), np.dtype(np.int32), 1, 2.5]
    opset = onnxscript.opset18
    for name, arity in ops:
        schema = onnx.defs.get_schema(name, 18)
        sig = onnxscript.values.Op(opset, name).op_signature
        for combo in itertools.product(kinds, repeat=arity):
            if name == "Where":
                combo = (np.dtype(np.bool_),) + combo[1:]
            want = spec_promote(schema, list(combo))
            if want is None or "ambiguous" in want:
                continue
            args = [tensor.Tensor(np.ones((1,), dtype=c)) if isinstance(c, np.dtype) else c for c in combo]
            n += 1
            try:
                got = autocast.dynamic_cast_inputs(sig, args)
            except Exception as e:  # noqa: BLE001
                print(f"{name}{combo}: dynamic_cast_inputs raises {type(e).__name__}: {e}")
                bad += 1
                continue
            for i, (g, w) in enumerate(zip(got, want)):
                gd = g.dtype if isinstance(g, tensor.Tensor) else None
                if gd != w:
                    if bad < 10:
                        print(f"eager {name}{tuple(str(c) for c in combo)}: operand {i} promoted to {gd}, the sibling rule gives {w}")
                    bad += 1
    print(f"promote_search: {n} argument lists, {bad} differ")
    sys.exit(1 if bad else 0)


if __name__ == "__main__":
    main()
