"""Native replay for C13 function value names: Y = X * alpha + alpha as a model-local function whose tensor form of the attribute is a value
named like the attribute ('alpha') and whose product is named 'alpha.0'; exported, re-imported, compared on onnxruntime."""
import importlib.util
import os
import sys
import tempfile

import numpy as np
import onnx
import onnxruntime as ort
from onnx import TensorProto as TP
from onnx import helper as oh

import onnxscript


def main():
    const = oh.make_node("Constant", [], ["alpha"])
    a = onnx.AttributeProto()
    a.name, a.ref_attr_name, a.type = "value_float", "alpha", onnx.AttributeProto.FLOAT
    const.attribute.append(a)
    bad = 0
    for other in ("alpha.0", "alpha_0", "alpha.1"):
        f = oh.make_function("local", "Affine", ["X"], ["Y"], [const, oh.make_node("Mul", ["X", "alpha"], [other]), oh.make_node("Add", [other, "alpha"], ["Y"])],
                             [oh.make_opsetid("", 17)], attributes=["alpha"])
        g = oh.make_graph([oh.make_node("Affine", ["X"], ["Y"], domain="local", alpha=3.0)], "g", [oh.make_tensor_value_info("X", TP.FLOAT, [3])],
                          [oh.make_tensor_value_info("Y", TP.FLOAT, [3])])
        m = oh.make_model(g, opset_imports=[oh.make_opsetid("", 17), oh.make_opsetid("local", 1)], functions=[f], ir_version=8)
        x = np.array([1, 2, 3], np.float32)
        want = ort.InferenceSession(m.SerializeToString(), providers=["CPUExecutionProvider"]).run(None, {"X": x})[0]
        code = onnxscript.proto2python(f)
        name = "c13_fn_" + str(abs(hash(other)))
        path = os.path.join(tempfile.mkdtemp(), name + ".py")
        open(path, "w").write(code)
        spec = importlib.util.spec_from_file_location(name, path)
        mod = importlib.util.module_from_spec(spec)
        sys.modules[name] = mod
        try:
            spec.loader.exec_module(mod)
            fn = getattr(mod, "Affine")
            got = np.asarray(fn(x, alpha=3.0))
        except Exception as e:  # noqa: BLE001
            print(f"value named {other!r}: the exported function is refused / fails: {type(e).__name__}: {str(e)[:160]}")
            bad += 1
            continue
        if not np.allclose(got, want):
            print(f"Affine(X, alpha=3) with the product named {other!r}: original {want.tolist()}, exported function {got.tolist()}")
            bad += 1
    sys.exit(1 if bad else 0)


if __name__ == "__main__":
    main()
