"""Native replay for C11: builds a real @script function for an index expression, runs the graph on
onnxruntime and the function eagerly, and compares both with NumPy."""
from __future__ import annotations

import importlib.util
import os
import sys
import tempfile

import numpy as np


def build(idx_src, rank, tensors):
    """tensors: {name: np.ndarray} extra INT64 tensor parameters used inside idx_src."""
    params = "".join(f", {n}: INT64[...]" for n in tensors)
    src = ("from onnxscript import script, opset18 as op, FLOAT, INT64\n"
           "@script(default_opset=op)\n"
           f"def f(A: FLOAT[...]{params}) -> FLOAT[...]:\n"
           f"    return A[{idx_src}]\n")
    d = tempfile.mkdtemp(prefix="c11replay")
    path = os.path.join(d, "m.py")
    with open(path, "w") as fh:
        fh.write(src)
    spec = importlib.util.spec_from_file_location("c11_replay_mod_%d" % abs(hash((idx_src, rank))), path)
    mod = importlib.util.module_from_spec(spec)
    sys.modules[spec.name] = mod
    spec.loader.exec_module(mod)
    return mod.f


def run_case(shape, idx_src, tensors=None):
    """Returns (verdict, detail): verdict in {'same', 'error', 'DIFFERENT'}."""
    import onnxruntime as ort
    tensors = tensors or {}
    A = np.arange(int(np.prod(shape)), dtype=np.float32).reshape(shape)
    env = {"A": A, **tensors}
    try:
        want = eval(f"A[{idx_src}]", {}, env)
    except Exception as e:
        return "numpy-error", repr(e)
    out = {}
    try:
        f = build(idx_src, len(shape), tensors)
    except Exception as e:
        return "error", "refused at decoration: " + repr(e)[:200]
    try:
        m = f.to_model_proto()
        sess = ort.InferenceSession(m.SerializeToString(), providers=["CPUExecutionProvider"])
        out["graph"] = sess.run(None, {"A": A, **tensors})[0]
    except Exception as e:
        out["graph"] = e
    try:
        r = f(A, *tensors.values())
        out["eager"] = np.asarray(r.value if hasattr(r, "value") else r)
    except Exception as e:
        out["eager"] = e
    bad = []
    for k, v in out.items():
        if isinstance(v, Exception):
            continue
        if v.shape != np.asarray(want).shape or not np.array_equal(v, want):
            bad.append(f"{k}: shape {v.shape} values {v.ravel()[:8].tolist()} != numpy shape {np.asarray(want).shape} values {np.asarray(want).ravel()[:8].tolist()}")
    if bad:
        return "DIFFERENT", f"A{list(shape)}[{idx_src}]: " + "; ".join(bad)
    if all(isinstance(v, Exception) for v in out.values()):
        return "error", "both fail"
    return "same", ""


def main(cases):
    bad = 0
    for shape, idx, tensors in cases:
        v, d = run_case(tuple(shape), idx, {k: np.array(x, dtype=np.int64) for k, x in (tensors or {}).items()})
        if v == "DIFFERENT":
            bad += 1
            print("real converter/eager returns a different tensor than NumPy:", d)
    sys.exit(1 if bad else 0)
