"""Native replay for the C13 loop-protocol obligations: a while-Loop whose body computes the next condition first and then still reads
the incoming one, exported with proto2python under every option pair, re-imported and compared with the original on onnxruntime."""
import importlib.util
import itertools
import os
import sys
import tempfile

import numpy as np
import onnxruntime as ort
from onnx import TensorProto as TP
from onnx import helper as oh

import onnxscript


def model():
    body = oh.make_graph(
        [oh.make_node("Add", ["s_in", "X"], ["nxt"]), oh.make_node("ReduceSum", ["nxt"], ["tot"], keepdims=0),
         oh.make_node("Less", ["tot", "limit"], ["keep"]), oh.make_node("Where", ["go", "nxt", "s_in"], ["s_out"])],
        "body", [oh.make_tensor_value_info("it", TP.INT64, []), oh.make_tensor_value_info("go", TP.BOOL, []), oh.make_tensor_value_info("s_in", TP.FLOAT, [3])],
        [oh.make_tensor_value_info("keep", TP.BOOL, []), oh.make_tensor_value_info("s_out", TP.FLOAT, [3])])
    g = oh.make_graph(
        [oh.make_node("ReduceSum", ["X"], ["t0"], keepdims=0), oh.make_node("Less", ["t0", "limit"], ["c0"]),
         oh.make_node("Loop", ["", "c0", "X"], ["S"], body=body)],
        "g", [oh.make_tensor_value_info("X", TP.FLOAT, [3]), oh.make_tensor_value_info("limit", TP.FLOAT, [])], [oh.make_tensor_value_info("S", TP.FLOAT, [3])])
    return oh.make_model(g, opset_imports=[oh.make_opsetid("", 18)], ir_version=9)


def run(m, feeds):
    s = ort.InferenceSession(m.SerializeToString(), providers=["CPUExecutionProvider"])
    return s.run(None, dict(zip([i.name for i in s.get_inputs()], feeds)))[0]


def main():
    m = model()
    bad = 0
    for k, (rename, use_operators) in enumerate(itertools.product((False, True), repeat=2)):
        code = onnxscript.proto2python(m, function_name="main", rename=rename, use_operators=use_operators)
        name = f"c13_loop_gen_{k}"
        path = os.path.join(tempfile.mkdtemp(), name + ".py")
        open(path, "w").write(code)
        spec = importlib.util.spec_from_file_location(name, path)
        mod = importlib.util.module_from_spec(spec)
        sys.modules[name] = mod
        try:
            spec.loader.exec_module(mod)
            back = mod.main.to_model_proto(ir_version=9)
        except Exception as e:  # noqa: BLE001
            print(f"rename={rename}, use_operators={use_operators}: the exported script is refused: {type(e).__name__}: {str(e)[:160]}")
            bad += 1
            continue
        for x, lim in (([1, 1, 0], 7.0), ([1, 2, 3], 100.0), ([5, 5, 5], 1.0)):
            feeds = [np.array(x, np.float32), np.array(lim, np.float32)]
            a, b = run(m, feeds), run(back, feeds)
            if not np.array_equal(a, b):
                print(f"while-Loop, rename={rename}, use_operators={use_operators}, X={x}, limit={lim}: original {a.tolist()}, after the round trip {b.tolist()}")
                bad += 1
    sys.exit(1 if bad else 0)


if __name__ == "__main__":
    main()
