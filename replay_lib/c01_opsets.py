"""Native replay for the opset-import merge of OnnxFunction._to_model_proto (C01 / C02): a main script written against opset 12 that uses an
operator whose meaning changed later (Softmax, default axis, rank-3 input) and calls a script function written against opset 18; the model
must import the default domain at the MAIN graph's version, be valid, and compute what eager mode computes."""
import sys

import numpy as np
import onnx
import onnxruntime as ort

from onnxscript import FLOAT, script
from onnxscript import opset12, opset18
from onnxscript.values import Opset

local = Opset("local.fn", 1)


@script(local, default_opset=opset18)
def twice(x):
    return opset18.Elu(x)           # Elu-6 is the schema in force at opsets 12 and 18 alike: mixing the two versions is accepted by the checker


@script(default_opset=opset12)
def main_fn(X: FLOAT[2, 3, 4]) -> FLOAT[2, 3, 4]:
    y = opset12.Softmax(X)          # opset 12: coerced to 2D around axis 1
    return twice(y)


def main():
    bad = 0
    m = main_fn.to_model_proto()
    ver = {o.domain: o.version for o in m.opset_import}
    if ver.get("") != 12:
        print(f"main graph written against opset 12, called function against 18: the model imports the default domain at version {ver.get('')}")
        bad += 1
    x = np.random.default_rng(0).normal(size=(2, 3, 4)).astype(np.float32)
    eager = np.asarray(main_fn(x))
    try:
        onnx.checker.check_model(m)
        got = ort.InferenceSession(m.SerializeToString(), providers=["CPUExecutionProvider"]).run(None, {"X": x})[0]
        if not np.allclose(got, eager, atol=1e-6):
            print(f"graph and eager mode differ: max abs difference {np.abs(got - eager).max():.4f} (Softmax re-interpreted under opset {ver.get('')})")
            bad += 1
    except Exception as e:  # noqa: BLE001
        print(f"the model is rejected: {str(e).splitlines()[0][:160]}")
        bad += 1
    sys.exit(1 if bad else 0)


if __name__ == "__main__":
    main()
