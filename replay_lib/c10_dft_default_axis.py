"""Native replay for C10: DFT at opset 19 WITHOUT an axis attribute (default axis 1) on a rank-4 input, converted to opset 20 (where the axis is an
input whose default is -2): the converted model must compute what the original computes (onnxruntime)."""
import sys

import numpy as np
import onnx
import onnxruntime as ort
from onnx import TensorProto as TP
from onnx import helper as oh

from onnxscript import version_converter


def main():
    g = oh.make_graph([oh.make_node("DFT", ["x"], ["y"])], "g", [oh.make_tensor_value_info("x", TP.FLOAT, [2, 6, 8, 1])],
                      [oh.make_tensor_value_info("y", TP.FLOAT, None)])
    m = oh.make_model(g, opset_imports=[oh.make_opsetid("", 19)], ir_version=9)
    x = np.random.default_rng(0).standard_normal((2, 6, 8, 1)).astype(np.float32)
    a = ort.InferenceSession(m.SerializeToString(), providers=["CPUExecutionProvider"]).run(None, {"x": x})[0]
    c = onnx.ModelProto()
    c.CopyFrom(m)
    r = version_converter.convert_version(c, 20)      # in place for a ModelProto (returns None)
    c = r if r is not None else c
    b = ort.InferenceSession(c.SerializeToString(), providers=["CPUExecutionProvider"]).run(None, {"x": x})[0]
    if a.shape != b.shape or not np.allclose(a, b, atol=1e-4):
        print(f"DFT without an axis attribute, opset 19 -> 20, input [2,6,8,1]: max abs difference {float(np.max(np.abs(a - b))) if a.shape == b.shape else 'shapes ' + str((a.shape, b.shape))}; "
              f"converted node inputs {[list(n.input) for n in c.graph.node if n.op_type == 'DFT']}")
        sys.exit(1)
    sys.exit(0)


if __name__ == "__main__":
    main()
