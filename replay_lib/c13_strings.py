"""Native replay for C13 attribute text: a STRING tensor constant whose elements contain the letters 'nan' / 'inf' ("banana", "info"),
exported with proto2python, re-imported and compared with the original on onnxruntime."""
import importlib.util
import os
import sys
import tempfile

import numpy as np
import onnxruntime as ort
from onnx import TensorProto as TP
from onnx import helper as oh
from onnx import numpy_helper

import onnxscript


def main():
    const = numpy_helper.from_array(np.array(["banana", "info", "x"], dtype=object), "c")
    g = oh.make_graph([oh.make_node("Constant", [], ["c"], value=const), oh.make_node("Equal", ["s", "c"], ["y"])], "g",
                      [oh.make_tensor_value_info("s", TP.STRING, [3])], [oh.make_tensor_value_info("y", TP.BOOL, [3])])
    m = oh.make_model(g, opset_imports=[oh.make_opsetid("", 19)], ir_version=9)
    bad = 0
    for inline_const in (False, True):
        code = onnxscript.proto2python(m, function_name="main", inline_const=inline_const)
        name = f"c13_strings_{int(inline_const)}"
        path = os.path.join(tempfile.mkdtemp(), name + ".py")
        open(path, "w").write(code)
        spec = importlib.util.spec_from_file_location(name, path)
        mod = importlib.util.module_from_spec(spec)
        sys.modules[name] = mod
        try:
            spec.loader.exec_module(mod)
            back = mod.main.to_model_proto(ir_version=9)
        except Exception as e:  # noqa: BLE001
            print(f"inline_const={inline_const}: the exported script is refused: {type(e).__name__}: {str(e)[:200]}")
            bad += 1
            continue
        s = np.array(["banana", "info", "x"], dtype=object)
        a = ort.InferenceSession(m.SerializeToString(), providers=["CPUExecutionProvider"]).run(None, {"s": s})[0]
        sess = ort.InferenceSession(back.SerializeToString(), providers=["CPUExecutionProvider"])
        b = sess.run(None, {sess.get_inputs()[0].name: s})[0]
        if not np.array_equal(a, b):
            line = [ln.strip() for ln in code.splitlines() if "make_tensor" in ln]
            print(f"Equal(s, Constant(['banana', 'info', 'x'])) with s = the same strings, inline_const={inline_const}: original {a.tolist()}, after the round trip {b.tolist()}  [{line}]")
            bad += 1
    sys.exit(1 if bad else 0)


if __name__ == "__main__":
    main()
