"""Native replay for C13 export options: export2python with skip_initializers / rename over small models, generated text compiled, imported,
make_model() run on onnxruntime against the original."""
import numpy as np, onnx, sys
from onnx import helper, TensorProto, numpy_helper
from onnxscript.backend import onnx_export
import onnxruntime as ort
bad = 0
g2 = helper.make_graph([helper.make_node("Add", ["x", "w"], ["y"])], "g", [helper.make_tensor_value_info("x", TensorProto.FLOAT, [2])], [helper.make_tensor_value_info("y", TensorProto.FLOAT, [2])], initializer=[numpy_helper.from_array(np.array([1,2],np.float32),"w")])
m2 = helper.make_model(g2, opset_imports=[helper.make_opsetid("", 18)], ir_version=9)
g1 = helper.make_graph([helper.make_node("Relu", ["x"], ["y"])], "g", [helper.make_tensor_value_info("x", TensorProto.FLOAT, [2])], [helper.make_tensor_value_info("y", TensorProto.FLOAT, [2])])
m1 = helper.make_model(g1, opset_imports=[helper.make_opsetid("", 18)], ir_version=9)
x = np.array([-1, 5], np.float32)
for name, m in (("Relu without initializers", m1), ("Add with a small initializer", m2)):
    want = ort.InferenceSession(m.SerializeToString(), providers=["CPUExecutionProvider"]).run(None, {"x": x})[0]
    for rename, use_operators, skip in [(r, u, k) for r in (False, True) for u in (False, True) for k in (True, False)]:
        if True:
            src = onnx_export.export2python(m, rename=rename, use_operators=use_operators, skip_initializers=skip)
            try:
                compile(src, "<generated>", "exec")
                import tempfile, os, importlib.util
                d = tempfile.mkdtemp(); path = os.path.join(d, f"gen_{abs(hash((name, rename, use_operators, skip)))}.py"); open(path, "w").write(src)
                spec = importlib.util.spec_from_file_location(os.path.basename(path)[:-3], path); mod = importlib.util.module_from_spec(spec)
                sys.modules[spec.name] = mod; spec.loader.exec_module(mod)
                model = mod.make_model() if skip else mod.g.to_model_proto()
                got = ort.InferenceSession(model.SerializeToString(), providers=["CPUExecutionProvider"]).run(None, {model.graph.input[0].name: x})[0]
                if not np.array_equal(got, want):
                    print(f"{name}, rename={rename}, use_operators={use_operators}, skip_initializers={skip}: re-imported model gives {got.tolist()}, original {want.tolist()}"); bad += 1
            except Exception as e:  # noqa: BLE001
                if not isinstance(e, SyntaxError):
                    print(f"{name}, rename={rename}, use_operators={use_operators}, skip_initializers={skip}: the generated script is refused: {type(e).__name__}: {str(e)[:120]}"); bad += 1
                    continue
                print(f"{name}, rename={rename}, use_operators={use_operators}, skip_initializers={skip}: generated text is not valid Python: {e}"); bad += 1
if __name__ == '__main__':
    sys.exit(1 if bad else 0)
