"""C13 'model-local functions': a model whose main graph (or another function) calls a model-local function is exported with proto2python,
re-imported, and must still CONTAIN the function and compute the same on onnxruntime."""
import importlib.util
import os
import sys
import tempfile

import numpy as np
import onnxruntime as ort
from onnx import TensorProto as TP
from onnx import helper as oh

import onnxscript


def models():
    f = oh.make_function("local", "F", ["a"], ["b"], [oh.make_node("Relu", ["a"], ["t"]), oh.make_node("Neg", ["t"], ["b"])], [oh.make_opsetid("", 18)])
    g1 = oh.make_graph([oh.make_node("F", ["x"], ["y"], domain="local")], "g", [oh.make_tensor_value_info("x", TP.FLOAT, [3])], [oh.make_tensor_value_info("y", TP.FLOAT, [3])])
    yield "main calls F", oh.make_model(g1, functions=[f], opset_imports=[oh.make_opsetid("", 18), oh.make_opsetid("local", 1)], ir_version=9)
    gfn = oh.make_function("local", "G", ["a"], ["b"], [oh.make_node("F", ["a"], ["u"], domain="local"), oh.make_node("Add", ["u", "a"], ["b"])],
                           [oh.make_opsetid("", 18), oh.make_opsetid("local", 1)])
    g2 = oh.make_graph([oh.make_node("G", ["x"], ["y"], domain="local")], "g", [oh.make_tensor_value_info("x", TP.FLOAT, [3])], [oh.make_tensor_value_info("y", TP.FLOAT, [3])])
    yield "main calls G, G calls F", oh.make_model(g2, functions=[f, gfn], opset_imports=[oh.make_opsetid("", 18), oh.make_opsetid("local", 1)], ir_version=9)


def failures():
    ort.set_default_logger_severity(4)
    out = []
    for k, (what, m) in enumerate(models()):
        code = onnxscript.proto2python(m, function_name="main")
        name = f"c13_local_fn_{k}_{os.getpid()}"
        path = os.path.join(tempfile.mkdtemp(), name + ".py")
        open(path, "w").write(code)
        spec = importlib.util.spec_from_file_location(name, path)
        mod = importlib.util.module_from_spec(spec)
        sys.modules[name] = mod
        try:
            spec.loader.exec_module(mod)
            back = mod.main.to_model_proto(ir_version=9)
        except Exception as e:  # noqa: BLE001
            out.append(f"{what}: the exported script is refused: {type(e).__name__}: {str(e)[:160]}")
            continue
        want = sorted((f.domain, f.name) for f in m.functions)
        got = sorted((f.domain, f.name) for f in back.functions)
        call = [ln.strip() for ln in code.splitlines() if "= " in ln and ("F(" in ln or "G(" in ln)]
        if got != want:
            out.append(f"{what}: the model has the functions {want}, the round-tripped model {got} (calls printed as {call})")
            continue
        x = np.array([-1, 0, 2], np.float32)
        a = ort.InferenceSession(m.SerializeToString(), providers=["CPUExecutionProvider"]).run(None, {"x": x})[0]
        try:
            b = ort.InferenceSession(back.SerializeToString(), providers=["CPUExecutionProvider"]).run(None, {"x": x})[0]
        except Exception as e:  # noqa: BLE001
            out.append(f"{what}: the round-tripped model does not run: {str(e).splitlines()[0][:160]}")
            continue
        if not np.array_equal(a, b):
            out.append(f"{what}: original {a.tolist()}, after the round trip {b.tolist()}")
    return out


if __name__ == "__main__":
    bad = failures()
    for b in bad:
        print(b)
    sys.exit(1 if bad else 0)
