"""Native replay for C13 const_repr: an EMPTY rank-1 FLOAT / INT64 Constant, exported with inline_const=True and False, re-imported and compared
with the original on onnxruntime (an empty list literal `[]` carries no element type and is refused by the converter)."""
import importlib.util
import os
import sys
import tempfile

import numpy as np
import onnxruntime as ort
from onnx import TensorProto as TP
from onnx import helper as oh
from onnx import numpy_helper

import onnxscript


def main():
    bad = 0
    for dt, tp in ((np.float32, TP.FLOAT), (np.int64, TP.INT64)):
        c = oh.make_node("Constant", [], ["e"], value=numpy_helper.from_array(np.zeros((0,), dt), "e"))
        g = oh.make_graph([c, oh.make_node("Concat", ["x", "e"], ["y"], axis=0)], "g", [oh.make_tensor_value_info("x", tp, [2])], [oh.make_tensor_value_info("y", tp, [2])])
        m = oh.make_model(g, opset_imports=[oh.make_opsetid("", 18)], ir_version=9)
        x = np.array([1, 2], dt)
        want = ort.InferenceSession(m.SerializeToString(), providers=["CPUExecutionProvider"]).run(None, {"x": x})[0]
        for inline in (False, True):
            code = onnxscript.proto2python(m, function_name="main", inline_const=inline)
            name = f"c13_empty_{np.dtype(dt).name}_{int(inline)}"
            path = os.path.join(tempfile.mkdtemp(), name + ".py")
            open(path, "w").write(code)
            spec = importlib.util.spec_from_file_location(name, path)
            mod = importlib.util.module_from_spec(spec)
            sys.modules[name] = mod
            try:
                spec.loader.exec_module(mod)
                back = mod.main.to_model_proto(ir_version=9)
                got = ort.InferenceSession(back.SerializeToString(), providers=["CPUExecutionProvider"]).run(None, {"x": x})[0]
            except Exception as e:  # noqa: BLE001
                print(f"empty {np.dtype(dt).name} constant, inline_const={inline}: the exported script is refused: {type(e).__name__}: {str(e).splitlines()[0][:140]}  "
                      f"[{[ln.strip() for ln in code.splitlines() if 'Concat' in ln]}]")
                bad += 1
                continue
            if got.dtype != want.dtype or not np.array_equal(got, want):
                print(f"empty {np.dtype(dt).name} constant, inline_const={inline}: original {want!r}, after the round trip {got!r}")
                bad += 1
    sys.exit(1 if bad else 0)


if __name__ == "__main__":
    main()
